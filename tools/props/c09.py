"""C09 — evaluation order and effects: left to right, exactly once, short-circuit.

proof  : lean/GomlVerif/Props/C09.lean (anf_preserves & corollaries over Model/Anf.lean and Sem)
tie    : the model's anf on the REAL Lift dump == the REAL ANF (fresh Gensym and pipeline), exactly
oracle : effect-placement programs through the real pipeline (every hole effectful; one effectful hole among
         effect-free neighbours of each syntactic class; call-free expressions with one failing division); every stage dump run under Sem /
         Go.Sem under both `go` schedules; stages must agree with each other and with the trace the
         generator says the program must have (does not go through the model)."""
import json, os, re
import vlib
from props import c01, dce
from props import gocomp

STAGES = c01.STAGES


def classify(ref, got):
    """kind of the first divergence between two (status, stdout) outcomes"""
    rs, ro = ref[0], vlib.unesc(ref[1])
    gs, go = got[0], vlib.unesc(got[1])
    if gs.startswith("stuck"):
        return "stage-output-not-executable"
    if gs == "fuel" and rs != "fuel":
        return "does-not-terminate"
    if rs.startswith("panic") and go.startswith(ro) and (gs != rs or go != ro):
        # the failing operation did not fail where it should: the run continues past it
        return "dropped-failing-operation"
    if gs.startswith("panic") and not rs.startswith("panic") and ro.startswith(go):
        return "added-failing-operation"
    rl, gl = ro.split("\n"), go.split("\n")
    if sorted(rl) == sorted(gl) and rl != gl:
        return "reordered-effect"

    def subseq(a, b):
        it = iter(b)
        return all(x in it for x in a)
    if len(gl) > len(rl) and subseq(rl, gl):
        return "duplicated-or-extra-effect"
    if len(gl) < len(rl) and subseq(gl, rl):
        return "dropped-effect"
    if rs != gs:
        return f"ends-differently:{rs.split(':')[0]}->{gs.split(':')[0]}"
    return "stdout-differs"


def read_cases(ctx, extra):
    ok, out = ctx.gv("c09", extra)
    path = os.path.join(ctx.run_dir, "c09.cases.tsv")
    rows = vlib.read_tsv(path) if ok else []
    progs, ties = {}, {}
    feats = ""
    for r in rows:
        if r[0] == "#FEATS":
            feats = r[1]
            continue
        if r[1] == "TIE":
            ties[r[0]] = r[2]
            continue
        if r[1] == "TIEPANIC":
            ties[r[0]] = None
            ctx.broken_ties.append(("anf_file panicked on the real Lift output with a fresh Gensym", f"{r[0]}: {r[2]}"))
            continue
        d = progs.setdefault(r[0], {"stages": {}})
        if r[1] == "SRC":
            d["src"] = vlib.unesc(r[2])
        elif r[1] == "STAGE":
            d["stages"][r[2]] = r[3]
        elif r[1] == "TRACE":
            d["trace"] = {"eager": (r[2], r[3]), "lazy": (r[4], r[5] if len(r) > 5 else "")}
        elif r[1] == "POS":
            d["forms"] = r[2].split(",")
            d["positions"] = r[3].split(" ") if len(r) > 3 else []
        elif r[1] == "REJECT":
            d["reject"] = (r[2], r[3] if len(r) > 3 else "")
            d["src"] = vlib.unesc(r[4]) if len(r) > 4 else None
        elif r[1] == "PANIC":
            d["panic"] = r[2]
            d["src"] = vlib.unesc(r[3]) if len(r) > 3 else None
    return progs, ties, feats


def _esc(s):
    """inverse of vlib.unesc (the line escaping of harness/src/sexp.rs::esc_line)"""
    return s.replace("\\", "\\\\").replace("\n", "\\n").replace("\t", "\\t").replace("\r", "\\r")


def _fields_coverage(runnable):
    """streams fld: / fldwrap: / fldnest: of harness/src/c09/fields.rs"""
    shapes, perms, plans, streams = {}, {}, {}, {}
    partial = 0
    for k in runnable:
        f = k.split(":")
        if f[0] not in ("fld", "fldwrap", "fldnest"):
            continue
        streams[f[0]] = streams.get(f[0], 0) + 1
        if f[0] == "fld":
            shape, n, perm, tag = f[2], f[3], f[4], f[5]
        elif f[0] == "fldwrap":
            shape, n, perm, tag = f[2], f[4], f[5], "wrap-" + f[3]
        else:
            shape, n, perm, tag = f[3], f[4], f[5], "compound-initialisers"
        shapes[shape] = shapes.get(shape, 0) + 1
        perms[perm] = perms.get(perm, 0) + 1
        tag = tag.split("@")[0]
        plans[tag] = plans.get(tag, 0) + 1
        fixed = [i for i, c in enumerate(perm) if "abcd"[i] == c]
        if fixed and len(fixed) < len(perm):
            partial += 1
    return {"programs": sum(streams.values()), "by_stream": streams, "by_shape": shapes,
            "distinct_written_orders(of 2+6+24)": len(perms), "programs_per_written_order(min)": min(perms.values()) if perms else 0,
            "programs_with_a_PARTIALLY_permuted_order(some fields in their declared slot, some displaced)": partial,
            "by_effect_plan": plans}


def _replay_is_dce(path):
    try:
        return json.load(open(path)).get("signature", {}).get("source") == "dce"
    except Exception:
        return False


def run(ctx):
    ctx.extract()
    lean_ok = ctx.build_lean(["GomlVerif.Props.C09", dce.PROP_MODULE] + ([gocomp.PROP_MODULE] if os.path.exists(os.path.join(vlib.LEAN, gocomp.PROP_MODULE.replace(".", "/") + ".lean")) else []))
    if not ctx.build_harness():
        return ctx.finish("proof", {"evaluations": 0, "distinct_nontrivial": 0, "samples": []}, [], "lake build")
    extra = []
    if ctx.replay:
        rp = json.load(open(ctx.replay))
        src = (rp.get("cases") or [{}])[0].get("src")
        if src:
            f = os.path.join(ctx.run_dir, "replay.gom")
            open(f, "w").write(src)
            extra = ["--file", f]
    progs, ties, feats = read_cases(ctx, extra)
    if ctx.replay and extra and "replay" in progs:
        # an `expected-trace` violation is replayed against the trace recorded with it (the generator is not re-run)
        c0 = (rp.get("cases") or [{}])[0]
        ex = c0.get("expected")
        if ex and len(ex.get("stdout", "")) < 600:
            progs["replay"]["trace"] = {c0.get("schedule", "eager"): (ex["status"], _esc(ex["stdout"]))}

    # ------------------------------------------------------------ L1 tie (model vs anf.rs)
    tie_res = ctx.model("c09", [f"{k}\t{v}" for k, v in ties.items() if v]) if ties else {}
    n_tie = n_tie_eq = n_tie_eqt = fns = lift_fns = isa = frag = temps = filefrag = 0
    eqt_samples = []
    tie_samples = []
    notfrag = []
    for k, v in ties.items():
        if not v:
            continue
        m = tie_res.get(k)
        if not m or len(m) < 9:
            ctx.broken_ties.append(("model driver c09", f"{k}: {m}"))
            continue
        n_tie += 1
        kv = dict(x.split("=", 1) for x in m[2:] if "=" in x)
        if m[0] == "EQ" and m[1] == "EQ":
            n_tie_eq += 1
        elif m[0].split(" ")[0] in ("EQ", "EQT") and m[1].split(" ")[0] in ("EQ", "EQT"):
            # equal except for the type annotation of a reference to a temporary: the dump does not carry the `ty` field
            # of ELet/EIf, which the model recomputes from the body; they disagree only when a closure is used as a value
            # (lift.rs keeps the function type on the node, the closure-environment struct type on the body)
            n_tie_eqt += 1
            if len(eqt_samples) < 2:
                eqt_samples.append(f"{k}: {m[0][:260]}")
        else:
            ctx.broken_ties.append(("Model/Anf.lean differs from anf.rs on a real Lift function",
                                    f"{k}: fresh-gensym={m[0][:300]} pipeline={m[1][:300]}"))
        nf = int(kv.get("fns", 0))
        fns += nf
        lift_fns += int(kv.get("lift", 0))
        frag += int(kv.get("frag", 0))
        temps += int(kv.get("temps", 0))
        filefrag += int(kv.get("filefrag", 0))
        a0, ap = int(kv.get("isA0", 0)), int(kv.get("isAP", 0))
        isa += ap
        if a0 != nf or ap != nf:
            # property-level statement on the implementation's own output: ANF output is in ANF
            ctx.report({"oracle": "anf-shape", "kind": "operand-not-immediate"},
                       "a function of the real ANF stage has a non-immediate operand", {"id": k, "src": progs.get(k, {}).get("src")})
        if kv.get("notfrag"):
            notfrag.append(f"{k}: {kv['notfrag']}")
        if len(tie_samples) < 2 and k.startswith("eff:"):
            tie_samples.append({"id": k, "result": m[:9]})

    # ------------------------------------------------------------ stage-wise oracle, both schedules
    runnable = {k: d for k, d in progs.items() if d["stages"]}
    sched_out = {}
    c01.evaluate(ctx, runnable)
    sched_out["eager"] = {k: dict(d["out"]) for k, d in runnable.items()}
    with_go = {k: d for k, d in runnable.items() if "go ||" in (d.get("src") or "")}
    if with_go:
        os.environ["GV_EAGER"] = "0"
        try:
            c01.evaluate(ctx, with_go)
        finally:
            del os.environ["GV_EAGER"]
        sched_out["lazy"] = {k: dict(d["out"]) for k, d in with_go.items()}
    else:
        sched_out["lazy"] = {}
    gc = c01.gocheck(ctx, [f"{k}\t{d['stages']['go']}" for k, d in runnable.items() if "go" in d["stages"]])

    n_eval = n_agree = n_trace_ok = n_trace = n_invalid_go = n_fuel = n_fail_runs = n_go_sched = 0
    distinct = set()
    samples = []
    positions = {}
    forms = {}
    for k, d in runnable.items():
        for p in d.get("positions", []):
            positions[p] = positions.get(p, 0) + 1
        for f in d.get("forms", []):
            forms[f] = forms.get(f, 0) + 1
        invalid_go = gc.get(k, ("ok",))[0] == "err"
        n_invalid_go += invalid_go
        prog_ok = True
        outcome_sets = {}
        for sched in ("eager", "lazy"):
            o = sched_out[sched].get(k)
            if o is None:
                continue
            if any(v is None for v in o.values()):
                ctx.broken_ties.append(("sem driver", f"{k}: missing stage result {[s for s, v in o.items() if v is None]}"))
                prog_ok = False
                continue
            if any(v[0] in ("decode-error", "parse-error") for v in o.values()):
                ctx.broken_ties.append(("dump decoder", f"{k}: {[(s, v[0]) for s, v in o.items() if v[0].endswith('error')]}"))
                prog_ok = False
                continue
            ref_stage = "core" if not o["core"][0].startswith("stuck") else "mono"
            ref = o[ref_stage]
            if ref[0] == "fuel" and not d.get("trace"):
                # the reference run itself does not finish within the fuel: nothing to compare with.
                # (A later stage that runs out of fuel while the reference finishes IS a divergence:
                # e.g. a dropped loop-counter update.)
                n_fuel += 1
                continue
            n_eval += len(o)
            if sched == "lazy":
                n_go_sched += 1
            if ref[0].startswith("stuck"):
                ctx.broken_ties.append(("Sem cannot run the program (model gap)", f"{k}: {ref[0]}"))
                prog_ok = False
                continue
            if ref[0].startswith("panic"):
                n_fail_runs += 1
            payload = {"id": k, "schedule": sched, "src": d.get("src"), "reference_stage": ref_stage,
                       "positions": d.get("positions"),
                       "outcomes": {s: {"status": v[0], "stdout": vlib.unesc(v[1])[:600]} for s, v in o.items()}}
            stages = [s for s in STAGES[STAGES.index(ref_stage):] if not (s == "go" and invalid_go)]
            for s in stages:
                outcome_sets.setdefault(s, set()).add((o[s][0], o[s][1]))
            div = next((s for s in stages if (o[s][0], o[s][1]) != (ref[0], ref[1])), None)
            if div is not None:
                prog_ok = False
                kind = classify(ref, o[div])
                ctx.report({"oracle": "stagewise", "first_divergent_stage": div, "kind": kind},
                           f"the {div} stage does not have the effects of the {ref_stage} stage ({kind})", payload)
            # the trace the generator says the program must have
            tr = d.get("trace", {}).get(sched)
            if tr is not None:
                n_trace += 1
                want = (tr[0], tr[1])
                if (ref[0], ref[1]) == want:
                    n_trace_ok += 1
                else:
                    prog_ok = False
                    kind = classify((want[0], want[1], ""), ref)
                    ctx.report({"oracle": "expected-trace", "stage": ref_stage, "kind": kind},
                               f"the {ref_stage} stage does not have the trace the source program must have ({kind})",
                               dict(payload, expected={"status": want[0], "stdout": vlib.unesc(want[1])[:600]}))
            distinct.add((ref[0], ref[1]))
        if prog_ok:
            n_agree += 1
        if len(samples) < 3 and k.startswith("eff:") and "fail" in k and d.get("src"):
            o = sched_out["eager"].get(k) or {}
            samples.append({"id": k, "src": d["src"][-700:], "positions": d.get("positions"),
                            "core": list(o.get("core") or [])[:2], "go": list(o.get("go") or [])[:2]})
    rejected = [(k, d) for k, d in progs.items() if "reject" in d]
    panics = [(k, d) for k, d in progs.items() if "panic" in d]
    for k, d in rejected[:3]:
        ctx.broken_ties.append(("effect generator produced a program the compiler rejects", f"{k}: {d['reject']}"))
    for k, d in panics[:3]:
        ctx.report({"oracle": "compile", "kind": "panic"}, "the compiler panics on an effect-placement program",
                   {"id": k, "src": d.get("src"), "panic": d["panic"]})
    ctx.violations.sort(key=lambda v: len(v[2].get("src") or "x" * 10**6))
    kinds = {}
    shapes = {}
    for p, c in positions.items():
        e = p.rsplit(":", 1)[1]
        kinds[e] = kinds.get(e, 0) + c
        w = p.rsplit(":", 1)[0].rsplit("@", 1)[-1] if "@" in p else "None"
        shapes[w] = shapes.get(w, 0) + c
    pure_classes = {w[4:]: c for w, c in shapes.items() if w.startswith("Pure")}
    shapes = {w: c for w, c in shapes.items() if not w.startswith("Pure")}
    streams = {}
    for k in runnable:
        streams[k.split(":", 1)[0]] = streams.get(k.split(":", 1)[0], 0) + 1
    cov = {
        "evaluations": n_eval + n_tie, "distinct_nontrivial": len(distinct),
        "rule": "tie case = one program (82-program corpus, G-prog, effect programs): model anf on its real Lift dump vs the real ANF, exact; "
                "oracle case = one effect-placement program x schedule x stage evaluated under Sem / Go.Sem; distinct by (status, stdout) of the reference stage",
        "samples": samples + tie_samples,
        "tie_programs": n_tie, "tie_programs_equal(fresh gensym and pipeline)": n_tie_eq,
        "tie_programs_equal_up_to_the_type_annotation_of_a_temporary(closure used as a value: ELet.ty is not in the dump)": n_tie_eqt,
        "tie_type_annotation_samples": eqt_samples,
        "tie_functions": fns, "functions_in_Lift_sublanguage": lift_fns, "real_anf_functions_satisfying_isA": isa,
        "functions_in_InAnfFragment": frag, "files_in_FileInAnfFragment(hypothesis of anf_file_preserves_partial)": filefrag, "functions_outside_InAnfFragment(sample)": notfrag[:5],
        "temporaries_generated_by_model": temps,
        "effect_programs": len(runnable), "effect_programs_all_oracles_agree": n_agree,
        "expected_trace_checks": n_trace, "expected_trace_reproduced_by_core_stage": n_trace_ok,
        "runs_that_fail(panic expected at a definite point)": n_fail_runs,
        "lazy_schedule_runs(programs with go)": n_go_sched,
        "rejected_by_gocheck(owned by C02, Go stage skipped)": n_invalid_go, "fuel_exhausted(skipped)": n_fuel,
        "effect_kinds_placed": kinds, "operand_wrapper_shapes_placed(nearly trivial shape around the effectful core)": shapes,
        "effect_free_neighbour_classes_placed(holes WITHOUT an effect, and the operands of a failing division, by syntactic class; streams pure: / mix:)": pure_classes,
        "effect_programs_by_stream": streams, "distinct_positions": len({p.rsplit(':', 1)[0] for p in positions}),
        "forms": forms, "generator": feats,
        "impl_oracle_failures": len(ctx.violations), "model_diffs": n_tie - n_tie_eq - n_tie_eqt,
    }
    cov["named_operand_order(struct literals and struct patterns: every permutation of 2..4 fields x place x effect plan; expected trace = written order, values by field name)"] = _fields_coverage(runnable)
    # ---- dead-code elimination (go/dce.rs): model = implementation, behaviour of its real output
    if not ctx.replay or _replay_is_dce(ctx.replay):
        dce_cov, found = dce.evaluate(ctx)
        for sig, what, payload in dce.split_for_properties(found)[1]:
            ctx.report(sig, what, payload)
        cov["dce"] = dce_cov
        cov["impl_oracle_failures"] = len(ctx.violations)
    # ---- the Go back end (go/compile.rs): model = implementation, Sem(ANF) vs Go.Sem(Go) on its stream
    gocomp.add_to(ctx, "C09", cov)
    cov["impl_oracle_failures"] = len(ctx.violations)
    ctx.assumptions += [
        "Sem (Model/Sem.lean) is the source-level meaning: call-by-value, left to right, short-circuit, fail at the failing operation; Go.Sem is our reading of the Go spec",
        "`go`: outcomes are compared under the two schedules the semantics offers (activation runs to completion at the spawn; activation never runs before the "
        "spawner ends). Real goroutine interleavings at Ref operations and Go's memory model are outside the model",
        "theorems are about Model/Anf.lean; it speaks about anf.rs through the exact L1 tie (every run) — go/compile.rs statement lowering is validated by the oracle only; go/dce.rs has its own model (Model/Dce.lean, Props/Dce.lean: dce_preserves) tied by `gv dce`",
        "anf_preserves_partial / anf_file_preserves_partial: a source run that goes wrong (Fail.stuck: ill-typed IR) is only required to be matched by some outcome; typing of the IR is C03's property",
        "no source entity is spelled like an ANF temporary (C19 local_vs_temp_disjoint): hypothesis `tmpFresh` of anf_preserves, counted per function in coverage",
    ]
    tb = ["Lean 4 kernel", "axioms: " + ",".join(ctx.proof["axioms"] or ["none"]), "Sem/Go.Sem definitions",
          "harness/src/dump.rs, godump.rs, c09.rs (generator's expected traces)", "tools/props/c09.py"]
    return ctx.finish("proof", cov, tb, "lake build GomlVerif.Props.C09 && lake env lean Axioms.lean (#print axioms); gomlmodel c09 / sem")
