"""C10 — numbers mean what they say (Lean proof over Model/Num + generated tables; correspondence and oracles on the real pipeline)."""
import json, os, random, re
from fractions import Fraction
import vlib

# ------------------------------------------------------------------ the specification side (independent of the model)
# what the property text says about the ten numeric types: signedness and width of intN/uintN
SPEC = {"int8": (True, 8), "int16": (True, 16), "int32": (True, 32), "int64": (True, 64),
        "uint8": (False, 8), "uint16": (False, 16), "uint32": (False, 32), "uint64": (False, 64)}
# what the Go specification says about Go's predeclared sized types
GO = dict(SPEC)
SUFFIX = {"": "int32", "i8": "int8", "i16": "int16", "i32": "int32", "i64": "int64",
          "u8": "uint8", "u16": "uint16", "u32": "uint32", "u64": "uint64"}
PRIM = {"int8": "Int8", "int16": "Int16", "int32": "Int32", "int64": "Int64",
        "uint8": "UInt8", "uint16": "UInt16", "uint32": "UInt32", "uint64": "UInt64"}
TAST = {"int8": "TInt8", "int16": "TInt16", "int32": "TInt32", "int64": "TInt64",
        "uint8": "TUint8", "uint16": "TUint16", "uint32": "TUint32", "uint64": "TUint64"}
SRC_SYM = {"Add": "+", "Sub": "-", "Mul": "*", "Div": "/", "And": "&&", "Or": "||", "Less": "<", "Greater": ">",
           "LessEq": "<=", "GreaterEq": ">=", "Eq": "==", "NotEq": "!=", "Neg": "-", "Not": "!"}


def rng_of(ty):
    s, b = SPEC[ty]
    return (-(1 << (b - 1)), (1 << (b - 1)) - 1) if s else (0, (1 << b) - 1)


def in_range(ty, v):
    lo, hi = rng_of(ty)
    return lo <= v <= hi


def go_read_int(text):
    """Go's reading of an integer literal operand `[-]digits` (a leading 0 makes it octal)"""
    neg = text.startswith("-")
    t = text[1:] if neg else text
    if not t or not all(c in "0123456789" for c in t):
        return None
    if len(t) > 1 and t[0] == "0":
        if any(c in "89" for c in t):
            return None
        v = int(t, 8)
    else:
        v = int(t)
    return -v if neg else v


def tdiv(a, b):
    q = abs(a) // abs(b)
    return q if (a >= 0) == (b >= 0) else -q


def src_bin(op, ty, a, b):
    """source meaning: exact arithmetic, wrapped modulo 2^N into the type's range; / truncates toward zero, /0 fails"""
    lo, hi = rng_of(ty)
    m = hi - lo + 1
    w = lambda x: (x - lo) % m + lo
    if op == "Add": return ("int", w(a + b))
    if op == "Sub": return ("int", w(a - b))
    if op == "Mul": return ("int", w(a * b))
    if op == "Div": return ("panic",) if b == 0 else ("int", w(tdiv(a, b)))
    if op == "Neg": return ("int", w(-a))
    if op == "Less": return ("bool", a < b)
    if op == "Greater": return ("bool", a > b)
    if op == "LessEq": return ("bool", a <= b)
    if op == "GreaterEq": return ("bool", a >= b)
    if op == "Eq": return ("bool", a == b)
    if op == "NotEq": return ("bool", a != b)
    return ("illTyped",)


def go_bin(sym, goty, a, b, unary=False):
    """Go meaning of `a sym b` on two NON-constant operands of Go type goty, computed on bit patterns"""
    signed, bits = GO[goty]
    mask = (1 << bits) - 1
    ua, ub = a & mask, b & mask
    def val(u):
        u &= mask
        return u - (1 << bits) if signed and u >> (bits - 1) else u
    if unary:
        return ("int", val((~ua + 1))) if sym == "-" else ("invalid",)
    if sym == "+": return ("int", val(ua + ub))
    if sym == "-": return ("int", val(ua + ((~ub + 1) & mask)))
    if sym == "*": return ("int", val(ua * ub))
    if sym == "/":
        if ub == 0: return ("panic",)
        if not signed: return ("int", ua // ub)
        sa, sb = val(ua), val(ub)
        return ("int", val(tdiv(sa, sb) & mask))
    x, y = (val(ua), val(ub)) if signed else (ua, ub)
    if sym == "<": return ("bool", x < y)
    if sym == ">": return ("bool", x > y)
    if sym == "<=": return ("bool", x <= y)
    if sym == ">=": return ("bool", x >= y)
    if sym == "==": return ("bool", ua == ub)
    if sym == "!=": return ("bool", ua != ub)
    return ("invalid",)


def go_const(sym, goty, a, b, unary=False):
    """Go meaning when every operand is a constant: exact evaluation at compile time; the file is rejected when the
    result is not representable in goty or a constant divisor is zero (Go spec, Constant expressions)"""
    if unary:
        v = -a if sym == "-" else None
    elif sym == "/":
        if b == 0: return ("go-compile-error", "division by zero")
        v = tdiv(a, b)
    elif sym in "+-*":
        v = {"+": a + b, "-": a - b, "*": a * b}[sym]
    else:
        return go_bin(sym, goty, a, b)
    lo, hi = (-(1 << (GO[goty][1] - 1)), (1 << (GO[goty][1] - 1)) - 1) if GO[goty][0] else (0, (1 << GO[goty][1]) - 1)
    return ("int", v) if lo <= v <= hi else ("go-compile-error", f"constant {v} overflows {goty}")


def samples(ty, rnd):
    lo, hi = rng_of(ty)
    if hi - lo < 300:
        return list(range(lo, hi + 1))
    base = {lo, lo + 1, lo + 2, -3, -2, -1, 0, 1, 2, 3, 7, hi - 2, hi - 1, hi, hi // 2, hi // 2 + 1, lo // 2, 10, 100, -7}
    vals = sorted(v for v in base if lo <= v <= hi)
    return vals + [rnd.randint(lo, hi) for _ in range(24)] + [rnd.randint(-50, 50) for _ in range(6) if lo < 0] + [rnd.randint(0, 50) for _ in range(6)]


def float_bits(fr, p, ebits):
    """IEEE-754 bits of the correctly rounded (nearest, ties to even) value of the non-negative rational fr"""
    bias = (1 << (ebits - 1)) - 1
    emin, emax = 1 - bias, bias
    if fr == 0:
        return 0
    e = fr.numerator.bit_length() - fr.denominator.bit_length()
    while Fraction(2) ** e > fr:
        e -= 1
    while Fraction(2) ** (e + 1) <= fr:
        e += 1
    ee = max(e, emin)
    q = fr / Fraction(2) ** (ee - (p - 1))
    m = q.numerator // q.denominator
    rem = q - m
    if rem > Fraction(1, 2) or (rem == Fraction(1, 2) and m % 2 == 1):
        m += 1
    if m == 1 << p:
        m >>= 1
        ee += 1
    if ee > emax:
        return ((1 << ebits) - 1) << (p - 1)  # +inf
    if m < 1 << (p - 1):
        return m  # subnormal (or zero)
    return ((ee + bias) << (p - 1)) | (m - (1 << (p - 1)))



# ------------------------------------------------------------------ float constant expressions (FC stream)
FMT = {"float32": (24, 8), "float64": (53, 11)}


def sx_parse(text):
    """minimal S-expression reader (atoms bare or double-quoted)"""
    toks = re.findall(r'"(?:[^"\\]|\\.)*"|[()]|[^\s()]+', text)
    def rd(i):
        t = toks[i]
        if t == "(":
            out, i = [], i + 1
            while toks[i] != ")":
                v, i = rd(i)
                out.append(v)
            return out, i + 1
        if t.startswith('"'):
            return t[1:-1].replace('\\"', '"').replace("\\\\", "\\"), i + 1
        return t, i + 1
    return rd(0)[0]


def fbits(fr, ty):
    """bits of the float of type ty nearest to the rational fr (ties to even); a rational zero is +0"""
    p, eb = FMT[ty]
    if fr < 0:
        return float_bits(-fr, p, eb) | (1 << (p - 1 + eb))
    return float_bits(fr, p, eb)


def fval(bits, ty):
    """the rational a finite float stands for; None for inf/nan"""
    p, eb = FMT[ty]
    sign = bits >> (p - 1 + eb) & 1
    ef = bits >> (p - 1) & ((1 << eb) - 1)
    mant = bits & ((1 << (p - 1)) - 1)
    if ef == (1 << eb) - 1:
        return None
    bias = (1 << (eb - 1)) - 1
    m, e = (mant, 1 - bias - (p - 1)) if ef == 0 else (mant + (1 << (p - 1)), ef - bias - (p - 1))
    v = Fraction(m) * Fraction(2) ** e
    return -v if sign else v


def finf(ty, neg=False):
    p, eb = FMT[ty]
    return (((1 << eb) - 1) << (p - 1)) | ((1 << (p - 1 + eb)) if neg else 0)


def ieee(sym, x, y, ty):
    """IEEE-754 operation on two finite floats given as bits: the exact result, correctly rounded"""
    a, b = fval(x, ty), fval(y, ty)
    if a is None or b is None:
        raise ValueError("inf-or-nan operand")
    if sym == "/":
        if b == 0:
            if a == 0:
                raise ValueError("nan")
            return finf(ty, (a < 0) != bool(y >> (sum(FMT[ty]) - 1) & 1))
        return fbits(a / b, ty)
    return fbits({"+": a + b, "-": a - b, "*": a * b}[sym], ty)


def fcmp(sym, a, b):
    return {"<": a < b, "<=": a <= b, ">": a > b, ">=": a >= b, "==": a == b, "!=": a != b}[sym]


def src_float_eval(t, ty, env):
    """SOURCE meaning of an FC expression tree: every literal is rounded to ty, every operator is the IEEE operation"""
    k = t[0]
    if k == "lit": return ("f", fbits(Fraction(t[1]), ty))
    if k == "var": return ("f", env[t[1]])
    if k == "neg":
        v = src_float_eval(t[1], ty, env)
        return ("f", v[1] ^ (1 << (sum(FMT[ty]) - 1)))
    if k == "bin":
        x, y = src_float_eval(t[2], ty, env), src_float_eval(t[3], ty, env)
        return ("f", ieee(t[1], x[1], y[1], ty))
    if k == "call":
        x = src_float_eval(t[1], ty, env)
        return ("f", ieee("+", x[1], fbits(Fraction("0.25"), ty), ty))
    if k == "cmp":
        x, y = src_float_eval(t[2], ty, env), src_float_eval(t[3], ty, env)
        return ("b", fcmp(t[1], fval(x[1], ty), fval(y[1], ty)))
    if k == "if":
        c = src_float_eval(t[1], ty, env)
        return src_float_eval(t[2] if c[1] else t[3], ty, env)
    raise ValueError("bad tree " + str(t))


class GoCompileError(Exception):
    pass


def go_read_number(t):
    """Go's reading of one decimal numeric token (spec: Integer literals / Floating-point literals): a token with a `.` or
    an exponent is a floating-point constant ('q', Fraction), digits alone are an integer constant ('i', int; octal after a
    leading 0).  None: not a token of these forms (hexadecimal forms and `_` separators are not read)."""
    if re.fullmatch(r"\d+", t):
        v = go_read_int(t)
        return None if v is None else ("i", v)
    m = re.fullmatch(r"(\d+\.\d*|\.\d+|\d+)(?:[eE]([+-]?\d+))?", t)
    if not m:
        return None
    ip, _, fp = m.group(1).partition(".")
    return ("q", Fraction(int((ip + fp) or "0"), 10 ** len(fp)) * Fraction(10) ** int(m.group(2) or 0))


def go_const_bin(sym, a, b):
    """one operator on two untyped constants, exactly: ('i', int) | ('q', Fraction) | ('b', bool)"""
    if a[0] == "b" or b[0] == "b":
        if a[0] == b[0] == "b" and sym in ("&&", "||", "==", "!="):
            return ("b", {"&&": a[1] and b[1], "||": a[1] or b[1], "==": a[1] == b[1], "!=": a[1] != b[1]}[sym])
        raise GoCompileError("mismatched-operands")
    if sym in ("<", "<=", ">", ">=", "==", "!="):
        return ("b", fcmp(sym, Fraction(a[1]), Fraction(b[1])))
    if a[0] == b[0] == "i":
        if sym == "/":
            if b[1] == 0: raise GoCompileError("division-by-zero")
            return ("i", tdiv(a[1], b[1]))
        return ("i", {"+": a[1] + b[1], "-": a[1] - b[1], "*": a[1] * b[1]}[sym])
    x, y = Fraction(a[1]), Fraction(b[1])
    if sym == "/":
        if y == 0: raise GoCompileError("division-by-zero")
        return ("q", x / y)
    return ("q", {"+": x + y, "-": x - y, "*": x * y}[sym])


def go_convert(ty, v):
    """the one conversion of an untyped constant at a typed position"""
    if v[0] != "c":
        return v
    c = v[1]
    if ty == "bool":
        if c[0] != "b": raise GoCompileError("mismatched-operands")
        return ("b", c[1])
    if ty not in FMT or c[0] == "b":
        raise GoCompileError("mismatched-operands")
    bits = fbits(Fraction(c[1]), ty)
    if bits & ~(1 << (sum(FMT[ty]) - 1)) == finf(ty):
        raise GoCompileError("constant-overflows-type")
    return ("f", ty, bits)


# diagnosis only: evaluate a file as if every dot-less numeric token were of floating-point kind (what it would be with
# the `.0` suffix), to tell whether the KIND of a token is what makes Go's result differ from the source meaning
_READ_INT_TOKENS_AS_FLOAT = [False]


def go_eval_expr(e, env, fns):
    k = e[0]
    if k == "num":
        c = go_read_number(e[1])
        if c is None: raise GoCompileError("bad-literal")
        if c[0] == "i" and _READ_INT_TOKENS_AS_FLOAT[0]: c = ("q", Fraction(c[1]))
        return ("c", c)
    if k == "var":
        if e[1] in ("true", "false"): return ("b", e[1] == "true")
        return env[e[1]][1]
    if k == "paren":
        return go_eval_expr(e[1], env, fns)
    if k == "un" and e[1] == "neg":
        v = go_eval_expr(e[2], env, fns)
        if v[0] == "c": return ("c", (v[1][0], -v[1][1]))
        return ("f", v[1], v[2] ^ (1 << (sum(FMT[v[1]]) - 1)))
    if k == "un" and e[1] == "not":
        v = go_eval_expr(e[2], env, fns)
        return ("b", not v[1]) if v[0] == "b" else ("c", ("b", not v[1][1]))
    if k == "bin":
        a, b = go_eval_expr(e[2], env, fns), go_eval_expr(e[3], env, fns)
        if a[0] == "c" and b[0] == "c":
            return ("c", go_const_bin(e[1], a[1], b[1]))
        if a[0] == "c": a = go_convert(b[1] if b[0] == "f" else "bool", a)
        if b[0] == "c": b = go_convert(a[1] if a[0] == "f" else "bool", b)
        if a[0] == "f" and b[0] == "f":
            if e[1] in ("<", "<=", ">", ">=", "==", "!="):
                return ("b", fcmp(e[1], fval(a[2], a[1]), fval(b[2], b[1])))
            return ("f", a[1], ieee(e[1], a[2], b[2], a[1]))
        if a[0] == "b" and b[0] == "b":
            return ("b", {"&&": a[1] and b[1], "||": a[1] or b[1], "==": a[1] == b[1], "!=": a[1] != b[1]}[e[1]])
        raise ValueError("operands-not-evaluable")
    if k == "call" and e[1][0] == "var" and e[1][1] in fns:
        name, params, ret, body = fns[e[1][1]]
        loc = {}
        for (x, t), a in zip(params, e[2:]):
            loc[x] = (t, go_convert(t, go_eval_expr(a, env, fns)))
        r = go_exec(body, loc, ret, fns)
        if r is None: raise ValueError("no-return")
        return r
    return ("other",)


def go_exec(stmts, env, ret, fns):
    for st in stmts:
        k = st[0]
        if k == "vardecl":
            _, x, t, init = st
            if init == "none":
                env[x] = (t, ("f", t, 0) if t in FMT else ("b", False) if t == "bool" else ("other",))
            else:
                env[x] = (t, go_convert(t, go_eval_expr(init, env, fns)))
        elif k == "assign" and st[1][0] == "var":
            t = env[st[1][1]][0]
            env[st[1][1]] = (t, go_convert(t, go_eval_expr(st[2], env, fns)))
        elif k == "return":
            return go_convert(ret, go_eval_expr(st[1], env, fns))
        elif k == "if":
            c = go_convert("bool", go_eval_expr(st[1], env, fns))
            r = go_exec(st[2] if c[1] else (st[3] if isinstance(st[3], list) else []), env, ret, fns)
            if r is not None:
                return r
    return None


def go_const_tree(e):
    """the all-literal operator tree rooted at e, as (ops, [literal texts]) — or None"""
    if not isinstance(e, list) or not e: return None
    if e[0] == "num": return (0, [e[1]])
    if e[0] == "paren": return go_const_tree(e[1])
    if e[0] == "un" and e[1] == "neg": return go_const_tree(e[2])
    if e[0] == "bin":
        a, b = go_const_tree(e[2]), go_const_tree(e[3])
        if a and b: return (1 + a[0] + b[0], a[1] + b[1])
    return None


def go_const_scan(e, ty, found):
    """static rules: every all-literal operator is evaluated at compile time wherever it stands"""
    if not isinstance(e, list): return
    t = go_const_tree(e)
    if t is not None:
        if t[0] >= 1:
            found.append(t)
            v = go_eval_expr(e, {}, {})
            if v[0] == "c" and v[1][0] != "b":
                go_convert(ty, v)
        return
    for x in e:
        go_const_scan(x, ty, found)


def go_file_eval(gofile, ty):
    """(result, max operators in one constant expression, texts of the literals inside constant expressions)"""
    fns = {}
    for it in gofile[1:]:
        if it[0] == "func":
            fns[it[1]] = (it[1], [(p[0], p[1]) for p in it[2]], it[3], it[4])
    found = []
    try:
        for name in ("g", "f"):
            if name in fns:
                go_const_scan(fns[name][3], ty, found)
        call = next(st[3] for st in fns["main0"][3] if st[0] == "vardecl" and isinstance(st[3], list) and st[3][0] == "call" and st[3][1] == ["var", "f"])
        res = go_eval_expr(call, {}, fns)
    except GoCompileError as ex:
        res = ("go-compile-error", str(ex))
    ops = max([t[0] for t in found] or [0])
    texts = [x for t in found for x in t[1]]
    return res, ops, texts


def text_class(text, ty):
    """how well a printed literal text pins down the float it stands for"""
    q = Fraction(go_read_number(text)[1])
    if fval(fbits(q, ty), ty) == q:
        return "exact"
    if ty == "float64":
        return "f64-round-trip"
    # float32: does the f64 nearest to the text coincide with the float32 (i.e. the text is `{}` of the widened value)?
    return "f64-round-trip" if fval(fbits(q, "float64"), "float64") == fval(fbits(q, "float32"), "float32") else "f32-round-trip-only"


def parse_go_number(s, ty):
    """bits denoted by Go's %g / %v rendering of a float"""
    s = s.strip()
    if s in ("+Inf", "Inf"): return finf(ty)
    if s == "-Inf": return finf(ty, True)
    m = re.fullmatch(r"(-?)(\d+(?:\.\d+)?)(?:e([+-]\d+))?", s)
    if not m: return None
    q = Fraction(m.group(2)) * Fraction(10) ** int(m.group(3) or 0)
    b = fbits(q, ty)
    return b | (1 << (sum(FMT[ty]) - 1)) if m.group(1) else b


def _go_lines(gofile):
    for it in gofile[1:]:
        if it[0] == "func" and it[1] in ("f", "g"):
            yield f"func {it[1]}: " + " ; ".join(_go_stmt(st) for st in it[4])


def _go_expr(e):
    if not isinstance(e, list): return str(e)
    if e[0] in ("num", "var"): return e[1]
    if e[0] == "bin": return f"{_go_expr(e[2])} {e[1]} {_go_expr(e[3])}"
    if e[0] == "un": return ("-" if e[1] == "neg" else "!") + _go_expr(e[2])
    if e[0] == "paren": return f"({_go_expr(e[1])})"
    if e[0] == "call": return f"{_go_expr(e[1])}({', '.join(_go_expr(x) for x in e[2:])})"
    return str(e)


def _go_stmt(st):
    if st[0] == "vardecl": return f"var {st[1]} {st[2]}" + ("" if st[3] == "none" else f" = {_go_expr(st[3])}")
    if st[0] == "assign": return f"{_go_expr(st[1])} = {_go_expr(st[2])}"
    if st[0] == "return": return f"return {_go_expr(st[1])}"
    if st[0] == "if": return f"if {_go_expr(st[1])} {{ {' ; '.join(_go_stmt(x) for x in st[2])} }} else {{ {' ; '.join(_go_stmt(x) for x in st[3]) if isinstance(st[3], list) else ''} }}"
    return str(st)


def fields(s):
    return dict(x.split("=", 1) for x in s.split() if "=" in x)


def run(ctx):
    ctx.extract()
    ctx.build_lean(["GomlVerif.Props.C10"])
    if not ctx.build_harness():
        return ctx.finish("proof", {"evaluations": 0, "distinct_nontrivial": 0}, [], "lake build")
    ok, out = ctx.gv("c10")
    rows = vlib.read_tsv(os.path.join(ctx.run_dir, "c10.cases.tsv")) if ok else []
    cases = [r + [""] * (5 - len(r)) for r in rows if len(r) >= 4]
    to_model = [f"{r[0]}\t{r[2]}" for r in cases if r[1] not in ("FLT", "FC")]
    for r in cases:
        if r[1] == "FC" and r[3].startswith("ok "):
            to_model.append(f"{r[0]}\t(goeval {r[2].split()[1]} {vlib.unesc(r[3])[3:]})")
        elif r[1] == "FLT":
            a_ = re.findall(r"[^\s()]+", r[2])
            to_model.append(f"{r[0]}\t(fround {'float32' if a_[2] == 'f32' else 'float64'} {a_[1]})")
    to_model.append("fprint\t(fprint)")
    model = ctx.model("c10", to_model) if to_model and os.path.exists(vlib.MODEL) else {}
    rnd = random.Random(ctx.seed)
    n = {k: 0 for k in ("LIT", "NEG", "PAT", "OP", "FLT", "FC", "GOLIT", "PARSE", "EVAL", "FMT", "TOSTR")}
    eq = dict(n)
    stats = {"lit_accept": 0, "lit_reject_out_of_range": 0, "lit_reject_annotation": 0, "op_value_checks": 0, "op_const_exprs": 0,
             "flt_accept": 0, "flt_reject": 0, "flt_double_rounding_discriminating": 0, "flt_double_rounded": 0, "pat_accept": 0, "pat_reject": 0,
             "pat_known_scrutinee": 0, "pat_inferred_scrutinee": 0, "pat_inferred_accept": 0,
             "pat_inferred_unsuffixed_in_range_rejected_as_mismatch": 0, "neg_accept": 0, "neg_reject": 0, "neg_most_negative_value_not_writable": 0}
    distinct = set()
    fc_sem = []
    samples_out = []
    model_diffs = 0

    def tie_fail(kind, r, pred):
        nonlocal model_diffs
        model_diffs += 1
        if model_diffs <= 20:
            ctx.broken_ties.append((f"{kind} correspondence", f"case {r[0]} {r[2]}: model=`{pred}` impl=`{vlib.unesc(r[3])}`"))

    for r in cases:
        cid, kind, sexp, impl, src = r[0], r[1], r[2], vlib.unesc(r[3]), vlib.unesc(r[4])
        if kind not in n:
            continue
        n[kind] += 1
        pred = (model.get(cid) or [""])[0]
        args = re.findall(r'"((?:[^"\\]|\\.)*)"|([^\s()]+)', sexp)
        args = [a if a or not b else b for a, b in args][1:]
        payload = {"id": cid, "case": sexp, "src": src, "implementation": impl, "model": pred}

        # ---------------------------------------------------------------- LIT
        if kind == "LIT":
            digits, sfx, annot = args[0], ("" if args[1] == "-" else args[1]), ("" if args[2] == "-" else args[2])
            ty = SUFFIX[sfx]
            written = int(digits)
            fits = in_range(ty, written)
            if impl.startswith(pred) and pred:
                eq[kind] += 1
            else:
                tie_fail(kind, r, pred)
            if len(samples_out) < 3 and written > 100:
                samples_out.append({"id": cid, "stream": kind, "case": sexp, "implementation": impl, "model": pred})
            if written > 9:
                distinct.add(("LIT", digits, sfx, annot))
            if impl.startswith("accept "):
                stats["lit_accept"] += 1
                f = fields(impl)
                bad = []
                if annot and annot != ty: bad.append("accepted-at-a-type-other-than-the-suffix-type")
                if not fits: bad.append("out-of-range-literal-accepted")
                if f.get("prim") != PRIM[ty] or f.get("tast") != TAST[ty]: bad.append("wrong-type-in-core")
                if f.get("val") != str(written): bad.append("wrong-value-in-core")
                if f.get("goty") != ty or f.get("declty") != ty: bad.append("wrong-go-type")
                if go_read_int(f.get("golit", "")) != written: bad.append("go-literal-denotes-another-number")
                if f.get("txt") != f"{ty}:{f.get('golit')}": bad.append("printed-go-text-differs-from-goast")
                for b in bad:
                    ctx.report({"oracle": "literal", "kind": b}, f"literal `{digits}{sfx}`: {b}", dict(payload, written=str(written), type=ty))
            elif impl.startswith("reject "):
                if not fits:
                    stats["lit_reject_out_of_range"] += 1
                elif annot and annot != ty:
                    stats["lit_reject_annotation"] += 1
                else:
                    ctx.report({"oracle": "literal", "kind": "in-range-literal-rejected"},
                               f"literal `{digits}{sfx}` is in the range of {ty} but is rejected", dict(payload, written=str(written), type=ty))
            else:
                ctx.report({"oracle": "literal", "kind": "panic-or-unreadable"}, f"literal `{digits}{sfx}`: {impl[:80]}", payload)

        # ---------------------------------------------------------------- NEG
        elif kind == "NEG":
            digits, sfx = args[0], ("" if args[1] == "-" else args[1])
            ty = SUFFIX[sfx]
            mag = int(digits)
            distinct.add(("NEG", digits, sfx))
            if impl == pred and pred:
                eq[kind] += 1
            else:
                tie_fail(kind, r, pred)
            if impl.startswith("accept "):
                stats["neg_accept"] += 1
                f = fields(impl)
                bad = []
                if not in_range(ty, mag): bad.append("out-of-range-literal-accepted")
                if f.get("prim") != PRIM[ty] or f.get("val") != str(mag): bad.append("wrong-value-in-core")
                if f.get("goty") != ty or f.get("declty") != ty or f.get("goop") != "Neg": bad.append("wrong-go-type-or-operator")
                rhs = f.get("txt", "?:?").split(":", 1)[1]
                for b in bad:
                    ctx.report({"oracle": "literal", "kind": b, "form": "negated"}, f"`-{digits}{sfx}`: {b}", payload)
                if not bad:
                    # `-<lit>` is a Go constant expression: exact, then representable at the declared type
                    want = src_bin("Neg", ty, mag, 0)
                    got = ("int", go_read_int(rhs)) if go_read_int(rhs) is not None and in_range(ty, go_read_int(rhs)) else \
                          ("go-compile-error", f"constant {rhs} overflows {ty}")
                    if got != want:
                        sig = {"oracle": "operator", "kind": "go-constant-expression-rejected-by-go-compiler", "why": "constant overflows type"} \
                            if got[0] == "go-compile-error" else {"oracle": "literal", "kind": "negated-literal-denotes-another-number"}
                        ctx.report(sig, f"`-{digits}{sfx}` means {want} but is emitted as `{rhs}` at {ty}: {got}", dict(payload, source_meaning=str(want), go_meaning=str(got)))
            elif impl.startswith("reject "):
                stats["neg_reject"] += 1
                if in_range(ty, mag):
                    ctx.report({"oracle": "literal", "kind": "in-range-literal-rejected", "form": "negated"}, f"`-{digits}{sfx}` rejected", payload)
                elif in_range(ty, -mag):
                    stats["neg_most_negative_value_not_writable"] += 1
            else:
                ctx.report({"oracle": "literal", "kind": "panic-or-unreadable", "form": "negated"}, f"`-{digits}{sfx}`: {impl[:80]}", payload)

        # ---------------------------------------------------------------- PAT
        elif kind == "PAT":
            digits, sfx, scrut = args[0], ("" if args[1] == "-" else args[1]), args[2]
            shape = args[3] if len(args) > 3 else "param"
            inferred = shape in ("arith", "let", "closure", "generic", "ifexpr")
            # the type the pattern must denote its number at: its suffix's type, else the scrutinee's type — whether that
            # type was written down (known) or only inferred
            ty = SUFFIX[sfx] if sfx else scrut
            written = int(digits)
            fits = in_range(ty, written)
            distinct.add(("PAT", digits, sfx, scrut, shape))
            stats["pat_inferred_scrutinee" if inferred else "pat_known_scrutinee"] += 1
            if impl.startswith(pred) and pred:
                eq[kind] += 1
            else:
                tie_fail(kind, r, pred)
            if len(samples_out) < 8 and inferred and written > 100 and scrut in ("uint8", "int32") and shape in ("arith", "closure") and not sfx:
                samples_out.append({"id": cid, "stream": kind, "case": sexp, "implementation": impl, "model": pred})
            where = f"a {scrut} scrutinee ({'type inferred: ' + shape if inferred else 'type known: ' + shape})"
            if impl.startswith("accept "):
                stats["pat_accept"] += 1
                stats["pat_inferred_accept"] += inferred
                f = fields(impl)
                m = re.fullmatch(r"var:(\w+)/lit:(\w+):(-?\d+)", f.get("cases", ""))
                bad = []
                if ty != scrut: bad.append("accepted-at-a-type-other-than-the-scrutinee-type")
                if not in_range(scrut, written): bad.append("out-of-range-literal-accepted")
                if f.get("core") != f"{PRIM[scrut]}:{written}:{TAST[scrut]}": bad.append("wrong-value-in-core")
                if not m or m.group(1) != scrut or m.group(2) != scrut: bad.append("wrong-go-type")
                elif go_read_int(m.group(3)) != written or f.get("txt") != m.group(3): bad.append("go-literal-denotes-another-number")
                for b in bad:
                    ctx.report({"oracle": "pattern-literal", "kind": b, "scrutinee": "inferred" if inferred else "known"},
                               f"pattern `{digits}{sfx}` on {where} is accepted; Core holds `{f.get('core')}` and Go gets `case {f.get('txt')}:`: {b}",
                               dict(payload, written=str(written), scrutinee_type=scrut, shape=shape))
            elif impl.startswith("reject "):
                stats["pat_reject"] += 1
                if fits and ty == scrut:
                    if inferred and not sfx:
                        # not a violation of the statement (nothing wrong is accepted): an unsuffixed pattern is validated as
                        # int32 while the scrutinee's type is still unknown, and the program is then refused as a type mismatch
                        stats["pat_inferred_unsuffixed_in_range_rejected_as_mismatch"] += 1
                    else:
                        ctx.report({"oracle": "pattern-literal", "kind": "in-range-literal-rejected", "scrutinee": "inferred" if inferred else "known"},
                                   f"pattern `{digits}{sfx}` on {where} is in range but rejected", dict(payload, written=str(written)))
            else:
                msg = impl[6:].strip() if impl.startswith("panic ") else impl
                ctx.report({"oracle": "pattern-literal", "kind": "panic", "form": "unsuffixed" if not sfx else "suffixed", "message": msg[:80]},
                           f"integer literal pattern `{digits}{sfx}` on {where} is accepted by the typer and then the compiler panics: {msg[:80]}",
                           dict(payload, written=str(written)))

        # ---------------------------------------------------------------- OP
        elif kind == "OP":
            unary = sexp.startswith("(unop")
            op, ty, shape, lv, rv = args[0], args[1], args[2], args[3], (args[4] if len(args) > 4 else "")
            distinct.add(("OP", op, ty, shape))
            if not impl.startswith("ok "):
                ctx.report({"oracle": "operator", "kind": "operator-program-not-compiled"}, f"{op} at {ty} ({shape}): {impl[:100]}", payload)
                continue
            parts = [p.strip() for p in impl[3:].split(" | ")]
            nodes = [p for p in parts if p.startswith(("bin ", "un "))]
            if len(nodes) != 1:
                ctx.report({"oracle": "operator", "kind": "not-exactly-one-go-operator"}, f"{op} at {ty} ({shape}): {len(nodes)} Go operator nodes", payload)
                continue
            node = nodes[0]
            stripped = re.sub(r"(lit:\w+):\S+", r"\1", node)
            stripped = re.sub(r" text=\S+", "", stripped)
            if stripped == pred:
                eq[kind] += 1
            else:
                tie_fail(kind, r, pred)
            f = fields(node)
            sym = f.get("sym", "?")
            if len(samples_out) < 6 and shape in ("vv", "v") and op in ("Div", "Less"):
                samples_out.append({"id": cid, "stream": kind, "case": sexp, "implementation": impl, "model": pred})
            opnds = [f.get("arg")] if unary else [f.get("lhs"), f.get("rhs")]
            lits = [lv] if unary else [lv, rv]
            if ty in ("float32", "float64", "bool"):
                # validation only: the Go operator is spelled like the source operator and is applied to operands of the right Go type
                want = [f"{'var' if k == 'v' else 'lit'}:{ty}" for k in shape]
                got = [":".join((o or "").split(":")[:2]) for o in opnds]
                if sym != SRC_SYM[op] or got != want:
                    ctx.report({"oracle": "operator", "kind": "wrong-go-operator-or-operand-type", "class": "float" if ty != "bool" else "bool"},
                               f"{op} at {ty} is emitted as `{f.get('text')}` on {got}", payload)
                continue
            # integer types: evaluate the emitted Go operator against the source meaning
            kinds, gotys, consts = [], [], []
            for o, k, lit in zip(opnds, shape, lits):
                p = (o or "").split(":")
                kinds.append(p[0]); gotys.append(p[1] if len(p) > 1 else "?")
                consts.append(go_read_int(p[2]) if p[0] == "lit" and len(p) > 2 else None)
                if p[0] == "lit" and consts[-1] != int(lit):
                    ctx.report({"oracle": "operator", "kind": "literal-operand-denotes-another-number"}, f"operand `{lit}` printed as `{o}`", payload)
            if any(g not in GO for g in gotys) or len(set(gotys)) != 1:
                ctx.report({"oracle": "operator", "kind": "operands-not-of-one-sized-go-integer-type"}, f"{op} at {ty}: operand Go types {gotys}", payload)
                continue
            goty = gotys[0]
            vals = [[c] if c is not None else samples(ty, rnd) for c in consts]
            all_const = all(c is not None for c in consts)
            if all_const:
                stats["op_const_exprs"] += 1
            pairs = [(a,) for a in vals[0]] if unary else [(a, b) for a in vals[0] for b in vals[1]]
            for pr in pairs:
                a, b = pr[0], (pr[1] if len(pr) > 1 else 0)
                want = src_bin(op, ty, a, b)
                if GO[goty] != SPEC[ty] and not in_range(goty, a):
                    got = ("go-compile-error", "operand not representable")
                elif all_const:
                    got = go_const(sym, goty, a, b, unary)
                elif (not unary) and sym == "/" and consts[1] == 0:
                    got = ("go-compile-error", "division by zero")
                else:
                    got = go_bin(sym, goty, a, b, unary)
                stats["op_value_checks"] += 1
                if got != want:
                    if got[0] == "go-compile-error":
                        sig = {"oracle": "operator", "kind": "go-constant-expression-rejected-by-go-compiler",
                               "why": "division by zero" if "zero" in got[1] else "constant overflows type"}
                        what = (f"`{src.splitlines()[1].strip()}` at {ty} means {want} but is emitted as the Go constant expression "
                                f"`{f.get('text', '').replace('_', ' ')}`, which the Go compiler rejects ({got[1]})")
                    else:
                        sig = {"oracle": "operator", "kind": "go-operator-disagrees-with-source-operator", "op": op}
                        what = f"{op} at {ty} on ({a}, {b}): source meaning {want}, emitted Go `{f.get('text')}` on {goty} gives {got}"
                    ctx.report(sig, what, dict(payload, operands=[str(a), str(b)], source_meaning=str(want), go_meaning=str(got)))
                    break

        # ---------------------------------------------------------------- FLT (validation only)
        elif kind == "FLT":
            text, sfx = args[0], ("" if args[1] == "-" else args[1])
            f32 = sfx == "f32"
            p, eb = (24, 8) if f32 else (53, 11)
            written = Fraction(text)
            want = float_bits(written, p, eb)
            inf = ((1 << eb) - 1) << (p - 1)
            width = 8 if f32 else 16
            f = fields(impl)
            ref = f.get("ref32" if f32 else "ref64")
            distinct.add(("FLT", text, sfx))
            if pred != ("none" if want == inf else f"{want:x}"):
                tie_fail(kind, r, pred + f" (Model/GoConst.litBits) python={want:x}")
            else:
                eq[kind] += 1
            if ref not in (None, "err") and int(ref, 16) != want:
                ctx.broken_ties.append(("float oracle", f"case {cid}: python rounding {want:0{width}x} != Rust parse {ref} for {text}"))
            if f32 and f.get("ref32") != f.get("dbl32"):
                stats["flt_double_rounding_discriminating"] += 1
            if impl.startswith("accept "):
                stats["flt_accept"] += 1
                bits = int(f.get("bits", "0"), 16) if f.get("bits", "?") != "?" else -1
                if want == inf:
                    ctx.report({"oracle": "float-literal", "kind": "out-of-range-literal-accepted"}, f"`{text}{sfx}` overflows but is accepted", payload)
                elif bits != want:
                    dbl = f32 and f.get("dbl32") == f.get("bits")
                    stats["flt_double_rounded"] += dbl
                    ctx.report({"oracle": "float-literal", "kind": "float32-double-rounding" if dbl else "wrong-value-in-core"},
                               f"`{text}{sfx}` must round to {want:0{width}x} but Core holds {f.get('bits')}", payload)
                gotxt = f.get("txt", "?:?").split(":", 1)[1]
                try:
                    goval = float_bits(Fraction(gotxt), p, eb)
                except Exception:
                    goval = -1
                gty = "float32" if f32 else "float64"
                if goval != want or f.get("goty") != gty or f.get("declty") != gty:
                    ctx.report({"oracle": "float-literal", "kind": "go-literal-denotes-another-number"},
                               f"`{text}{sfx}`: printed Go literal `{gotxt}` at {f.get('declty')} reads as {goval:x}, expected {want:x}", payload)
            elif impl.startswith("reject "):
                stats["flt_reject"] += 1
                maxfin = Fraction((1 << p) - 1) * Fraction(2) ** ((1 << (eb - 1)) - 1 - (p - 1))
                if written <= maxfin:
                    ctx.report({"oracle": "float-literal", "kind": "in-range-literal-rejected"}, f"`{text}{sfx}` is finite and in range but rejected", payload)
            else:
                ctx.report({"oracle": "float-literal", "kind": "panic-or-unreadable"}, f"`{text}{sfx}`: {impl[:80]}", payload)

        # ---------------------------------------------------------------- FC: float operators on literal operands
        elif kind == "FC":
            tree = sx_parse(sexp)
            ty, retk, av, bv, tag, expr = tree[1], tree[2], tree[3], tree[4], tree[5], tree[6]
            distinct.add(("FC", sexp))
            stats["fc_" + tag] = stats.get("fc_" + tag, 0) + 1
            if not impl.startswith("ok "):
                ctx.report({"oracle": "float-constant", "kind": "float-program-not-compiled"}, f"{src.splitlines()[-6] if src else sexp}: {impl[:100]}", payload)
                continue
            payload = {"id": cid, "case": sexp, "src": src}
            gofile = sx_parse(impl[3:])
            # (1) the source meaning, from the written literals: exact rationals, one rounding per literal and per operator
            try:
                env = {"a": fbits(Fraction(av), ty), "b": fbits(Fraction(bv), ty)}
                want = src_float_eval(expr, ty, env)
            except ValueError as ex:
                stats["fc_skipped_inf_nan"] = stats.get("fc_skipped_inf_nan", 0) + 1
                continue
            want_s = f"{ty} {want[1]:x}" if want[0] == "f" else f"bool {str(want[1]).lower()}"
            # (2) Go's meaning of the REAL printed text, constants evaluated exactly
            try:
                got, ops, texts = go_file_eval(gofile, ty)
            except Exception as ex:
                ctx.broken_ties.append(("FC go text evaluation", f"case {cid} {sexp}: {type(ex).__name__} {ex}"))
                continue
            got_s = (f"{got[1]} {got[2]:x}" if got[0] == "f" else f"bool {str(got[1]).lower()}" if got[0] == "b" else
                     f"go-compile-error {got[1]}" if got[0] == "go-compile-error" else str(got))
            # tie: the Lean evaluator (Model/GoConst + driver walk) on the same text
            if pred == f"{got_s} constops={ops}":
                eq[kind] += 1
            else:
                tie_fail(kind, r, pred + f" | python: {got_s} constops={ops}")
            if ops > 1:
                ctx.report({"oracle": "float-constant", "kind": "constant-expression-with-more-than-one-operator"},
                           f"a printed Go constant expression has {ops} operators (ANF should name every intermediate result); Go rounds only once", payload)
            if len(samples_out) < 12 and tag in ("lit-op-lit", "condition") and got_s != want_s:
                samples_out.append({"id": cid, "stream": kind, "case": sexp, "source_meaning": want_s, "go_meaning_of_printed_text": got_s})
            fc_sem.append((cid, ty, want, payload, r[5] if len(r) > 5 else ""))
            if got_s != want_s:
                gotext = "\n".join(l_ for l_ in _go_lines(gofile))
                pl = dict(payload, source_meaning=want_s, go_meaning_of_printed_text=got_s, printed_go=gotext, literal_texts_in_constant_expressions=texts[:6])
                stmt = next((l_ for l_ in src.splitlines() if l_.startswith("    ") and "string_println" not in l_ and l_.strip() != "()"), sexp).strip()
                if got[0] == "go-compile-error":
                    ctx.report({"oracle": "float-constant", "kind": "go-constant-expression-rejected-by-go-compiler", "why": got[1], "class": "float"},
                               f"`{stmt}` at {ty} means {want_s} but its operands are printed as literals: a Go constant expression the Go compiler rejects ({got[1]})", pl)
                else:
                    sign = 1 << (sum(FMT[ty]) - 1)
                    if want[0] == "f" and got[0] == "f" and want[1] ^ got[2] == sign and want[1] & ~sign == 0:
                        sig = {"oracle": "float-constant", "kind": "go-constant-expression-differs-from-source", "operand_text": "negative-zero"}
                        cls = "the constant -0.0 is +0 in Go"
                    else:
                        order = ["exact", "f64-round-trip", "f32-round-trip-only", "integer-kind"]
                        kinds = [(go_read_number(t_) or ("?",))[0] for t_ in texts]
                        cls = max([text_class(t_, ty) for t_, k_ in zip(texts, kinds) if k_ == "q"] or ["exact"], key=order.index)
                        if "i" in kinds:
                            # a float operand printed without `.`/exponent is an INTEGER constant: `7 / 2` is integer division.
                            # Named as the cause only when reading those tokens as floating-point changes Go's result.
                            _READ_INT_TOKENS_AS_FLOAT[0] = True
                            try:
                                got_fk = go_file_eval(gofile, ty)[0]
                            except Exception:
                                got_fk = None
                            finally:
                                _READ_INT_TOKENS_AS_FLOAT[0] = False
                            if got_fk != got:
                                cls = "integer-kind"
                        sig = {"oracle": "float-constant", "kind": "go-constant-expression-differs-from-source", "type": ty, "operand_text": cls}
                    ctx.report(sig,
                               f"`{stmt}` at {ty} means {want_s} (each literal rounded to {ty}, IEEE operation) but the printed Go evaluates the "
                               f"literal TEXTS {texts[:4]} exactly and rounds once: {got_s} (operand texts: {cls})", pl)

        # ---------------------------------------------------------------- GOLIT: the reading of one numeric token of the Go text
        elif kind == "GOLIT":
            text = args[0]
            c = go_read_number(text)
            if c is None:
                mine = "bad"
            elif c[0] == "i" and len(text) > 1 and text[0] == "0":
                mine = "octal-int"
            else:
                def at(ty):
                    b = fbits(Fraction(c[1]), ty)
                    return "overflow" if b == finf(ty) else f"{b:x}"
                mine = f"{'int' if c[0] == 'i' else 'float'} f32={at('float32')} f64={at('float64')}"
            if re.fullmatch(r"0\d+", text) and go_read_int(text) is None:
                mine = "octal-int"      # `08`: not a Go token at all; Rust is not asked (the harness answers octal-int by shape)
            if pred == impl == mine:
                eq[kind] += 1
            else:
                tie_fail(kind, r, pred + f" python={mine}")
            stats["golit_" + mine.split()[0]] = stats.get("golit_" + mine.split()[0], 0) + 1

        # ---------------------------------------------------------------- PARSE / FMT / EVAL: model vs Rust std, plus python's own
        elif kind == "PARSE":
            if pred == impl: eq[kind] += 1
            else: tie_fail(kind, r, pred)
        elif kind == "FMT":
            rust, x = args[0], int(args[1])
            s, b = SPEC[{v: k for k, v in {"int8": "i8", "int16": "i16", "int32": "i32", "int64": "i64", "uint8": "u8", "uint16": "u16", "uint32": "u32", "uint64": "u64"}.items()}[rust]]
            v = x & ((1 << b) - 1)
            v = v - (1 << b) if s and v >> (b - 1) else v
            if pred == impl == str(v): eq[kind] += 1
            else: tie_fail(kind, r, pred)
        elif kind == "EVAL":
            op, rust, x, y = args[0], args[1], int(args[2]), int(args[3])
            ty = {"i8": "int8", "i16": "int16", "i32": "int32", "i64": "int64", "u8": "uint8", "u16": "uint16", "u32": "uint32", "u64": "uint64"}[rust]
            s, b = SPEC[ty]
            conv = lambda u: (lambda v: v - (1 << b) if s and v >> (b - 1) else v)(u & ((1 << b) - 1))
            a_, b_ = conv(x), conv(y)
            mine = src_bin(op, ty, a_, b_)
            mine_s = "panic" if mine[0] == "panic" else f"{mine[0]} {str(mine[1]).lower() if mine[0] == 'bool' else mine[1]}"
            gosem = go_bin(SRC_SYM[op], ty, a_, b_, op == "Neg")
            go_s = "panic" if gosem[0] == "panic" else f"{gosem[0]} {str(gosem[1]).lower() if gosem[0] == 'bool' else gosem[1]}"
            if pred == f"go={impl} sem={impl}" and mine_s == impl and go_s == impl:
                eq[kind] += 1
            else:
                tie_fail(kind, r, pred + f" python-src={mine_s} python-go={go_s}")

        # ---------------------------------------------------------------- TOSTR
        elif kind == "TOSTR":
            m = re.fullmatch(r"helper (\w+) (\w+) (\S+) var:(\w+) ret=string", impl)
            if not m:
                ctx.report({"oracle": "to_string", "kind": "helper-of-unexpected-shape"}, impl, payload)
                continue
            name, gvar, verb, pty = m.groups()
            if pred.startswith(f"helper {name} {gvar} {verb} "):
                eq[kind] += 1
            else:
                tie_fail(kind, r, pred)
            distinct.add(("TOSTR", name))
            ty = name[:-len("_to_string")]
            is_float = ty in ("float32", "float64")
            if pty != ty:
                ctx.report({"oracle": "to_string", "kind": "helper-parameter-of-another-type"}, f"{name} takes {pty}", payload)
            if is_float and verb not in ("%g", "%v", "%f", "%G", "%F"):
                shown = "3.5"
                ctx.report({"oracle": "to_string", "kind": "float-formatted-with-integer-verb", "verb": verb},
                           f"{name} is fmt.Sprintf(\"{verb}\", x): Go prints {ty}_to_string({shown}) as `%!{verb[1:]}({ty}={shown})`, not a decimal "
                           f"(Lean: to_string_verbs_ok fails on the generated table)",
                           dict(payload, witness=f"fn main() -> unit {{ let _ = string_println({ty}_to_string(3.5{'f32' if ty == 'float32' else 'f64'})); () }}",
                                expected_output="3.5", go_output=f"%!{verb[1:]}({ty}={shown})"))
            if not is_float and verb not in ("%d", "%v"):
                ctx.report({"oracle": "to_string", "kind": "integer-not-formatted-in-decimal", "verb": verb}, f"{name} uses {verb}", payload)

    # FC (a): the REAL Core under the Lean source semantics `Sem` (gomlmodel sem) must print the source meaning
    if fc_sem and os.path.exists(vlib.MODEL):
        import subprocess
        lines = [f"{cid}\t{core}" for cid, _, _, _, core in fc_sem if core]
        p_ = vlib.srun(["bash", "-c", f"ulimit -s unlimited; exec {vlib.MODEL} sem"], input="\n".join(lines) + "\n",
                            stdout=subprocess.PIPE, stderr=subprocess.PIPE, text=True, timeout=3000)
        semres = {}
        for l_ in p_.stdout.split("\n"):
            f_ = l_.split("\t")
            if len(f_) >= 3:
                semres[f_[0]] = (f_[1], vlib.unesc(f_[2]))
        if p_.returncode != 0:
            ctx.broken_ties.append(("model driver sem", p_.stderr[-500:]))
        n_sem = n_sem_ok = 0
        for cid, ty, want, payload, core in fc_sem:
            st = semres.get(cid)
            n_sem += 1
            if not st or st[0] != "ok":
                ctx.broken_ties.append(("Sem on Core (FC)", f"case {cid}: {st}"))
                continue
            outp = st[1].strip()
            okv = (outp == str(want[1]).lower()) if want[0] == "b" else (parse_go_number(outp, ty) == want[1])
            if okv:
                n_sem_ok += 1
            else:
                ctx.report({"oracle": "float-constant", "kind": "core-under-sem-differs-from-source"},
                           f"the real Core evaluates (Sem) to `{outp}` but the written program means {want}", dict(payload, sem_output=outp))
        stats["fc_sem_on_core_runs"] = n_sem
        stats["fc_sem_on_core_equal_to_source_meaning"] = n_sem_ok
    fp = (model.get("fprint") or [""])[0]
    stats["float_literal_printing"] = fp
    # recorded corpus output (from real Go) for the float programs: must be plain decimals
    corpus_notes = []
    for prog in ("050_float_ops", "053_float_pattern_matching"):
        p = os.path.join(os.environ.get("GV_REPO", "/repo"), "crates/compiler/src/tests/pipeline", prog, "main.gom.out")
        if os.path.exists(p):
            txt = open(p).read()
            bad = re.findall(r"%!\w\([^)]*\)", txt)
            corpus_notes.append(f"{prog}: {'recorded output contains ' + bad[0] if bad else 'recorded output has no %! formatting errors'}")
    ctx.notes += corpus_notes

    if ctx.replay:
        try:
            want = json.load(open(ctx.replay)).get("signature")
            ctx.violations = [v for v in ctx.violations if v[0] == want]
            ctx.notes.append(f"replay: only violations with signature {want} are reported")
        except Exception as e:
            ctx.broken_ties.append(("replay file", str(e)))
    ctx.violations.sort(key=lambda v: ("(unop" in v[2].get("case", ""), len(v[2].get("src", ""))))
    total = sum(n.values())
    cov = {
        "evaluations": total, "distinct_nontrivial": len(distinct),
        "rule": "one case = one program compiled by the real pipeline (LIT/NEG/PAT/OP/FLT/FC), or one call of the Rust std function the compiler uses "
                "(PARSE = str::parse::<iN/uN>, FMT = iN::to_string, EVAL = wrapping_* as a third opinion on the Lean operator semantics), or one runtime "
                "helper (TOSTR). distinct_nontrivial counts distinct LIT inputs with a value > 9, distinct PAT and FLT inputs, distinct (operator,type,"
                "operand shape) triples, NEG inputs, FC programs and helpers; PARSE/FMT/EVAL are not counted",
        "streams": n, "model_equal": eq, "model_diffs": model_diffs, "impl_oracle_failures": len(ctx.violations),
        "stats": stats, "samples": samples_out,
        "input_distribution": "LIT: every value 0..300 at i8 and u8, ±2 around every boundary of all 8 integer types in every suffix form and unsuffixed, "
                              "with matching and foreign annotations, leading zeros, seeded random 64-bit and wider values; NEG: negated literals around the "
                              "negative end of every type; PAT: literal patterns (suffixed, foreign suffix, unsuffixed) at every scrutinee type, on scrutinees of known type (parameter, let of "
                              "one, negation) and on scrutinees whose type is inferred after the pattern was checked (operator result, un-annotated let "
                              "of one, closure parameter, generic call result, if result) with values in range / at the boundary / just outside / far "
                              "outside the scrutinee type but inside int32 / around int32's end; OP: 10 arithmetic/comparison "
                              "operators + neg × 8 integer types × operand shapes var/var, var/lit, lit/var, lit/lit (incl. overflowing and zero-divisor "
                              "literal pairs), bool and float operators; each integer OP case is evaluated on all 256×256 operand pairs (8-bit) or "
                              "boundary+random pairs against the source meaning; FC: float operators whose operands are literals (lit op lit grid over one-decimal and dyadic values + seeded random "
                              "decimals, exact ties, literal comparisons, three literals in both associations, mixed with variables, unary minus, nested, call "
                              "arguments, conditions, constant zero divisor / overflow / negative zero; the KIND of the printed constant: whole-number operands "
                              "(whole op whole grid over every operator + seeded random 1..7-digit pairs + magnitudes around 2^24 / 2^32 / 2^53 / 2^64, negated, beside a "
                              "non-whole literal, beside a variable, nested, call argument, comparison, condition); float32 and float64): source meaning from exact "
                              "Fractions vs Sem on the real Core vs Go's constant rules on the real printed text; FLT: decimals, f32 rounding midpoints ± 10^-k, range ends, subnormals; "
                              "GOLIT (model validation): the reading of one numeric token of Go text — every decimal form of Go's floating-point literal grammar (either side of "
                              "the `.` empty, exponent with/without sign, e/E), malformed tokens, and `{}` / `{:?}` / `{:e}` / `{:E}` of seeded random finite f64 / f32 values — by "
                              "Model/GoConst.litValL + roundQ, by python and by Rust's str::parse::<f32/f64> (three-way)",
    }
    ctx.assumptions += [
        "Go numeric tokens: a decimal token with a `.` or an exponent is a floating-point constant, digits alone an integer constant (octal after a leading 0), and an operator on two integer constants is integer arithmetic (`7 / 2` is 3) — Go specification, Integer literals / Floating-point literals / Constant expressions; Model/GoConst.litValL and go_read_number in c10.py; hexadecimal forms and `_` separators are not read",
        "Go constant expressions: numeric literals are untyped arbitrary-precision constants, evaluated exactly, converted once at the typed use; a constant zero divisor and a constant that overflows the type are compile errors; there is no negative-zero constant (Go specification, Constants / Constant expressions) — Model/GoConst.lean and go_file_eval in c10.py",
        "IEEE-754 + - * / on float32/float64 are the exact result correctly rounded (ieeeBin / ieee); signed-zero results and NaN are not modelled",
        "Go's semantics of + - * / < <= > >= == != - ! on sized integers is what the Go specification says (goBinInt in Lean, go_bin in the oracle); no Go toolchain exists to observe it",
        "floats: validation only, no theorem; Go's float32 arithmetic is assumed to round every operation to single precision (the Go spec permits fused multiply-add across statements on some architectures; emitted code has no explicit float32(...) conversions)",
        "fmt.Sprintf(\"%d\") on an integer renders it in decimal (sprintfD); %g/%v on floats are taken as 'readable decimal form' without modelling their exact digits",
        "integer literal bodies are digit strings (the lexer regex [0-9]+ is extracted and checked); a leading '-' is the negation operator, so the most negative value of a signed type cannot be written as one literal",
    ]
    tb = ["Lean 4 kernel", "axioms: " + ",".join(ctx.proof["axioms"] or ["none"]),
          "tools/extract.py (regex translator for OpMap/ToString/NumTypes; shape assertions)",
          "harness/src/c10.rs (program templates, goast/Core walkers)", "tools/props/c10.py (oracles: SPEC/GO tables, src_bin/go_bin/go_const, float_bits)"]
    return ctx.finish("proof", cov, tb, "lake build GomlVerif.Props.C10 && lake env lean Axioms.lean (#print axioms)")
