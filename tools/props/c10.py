"""C10 — numbers mean what they say (Lean proof over Model/Num + generated tables; correspondence and oracles on the real pipeline)."""
import json, os, random, re
from fractions import Fraction
import vlib

# ------------------------------------------------------------------ the specification side (independent of the model)
# what the property text says about the ten numeric types: signedness and width of intN/uintN
SPEC = {"int8": (True, 8), "int16": (True, 16), "int32": (True, 32), "int64": (True, 64),
        "uint8": (False, 8), "uint16": (False, 16), "uint32": (False, 32), "uint64": (False, 64)}
# what the Go specification says about Go's predeclared sized types
GO = dict(SPEC)
SUFFIX = {"": "int32", "i8": "int8", "i16": "int16", "i32": "int32", "i64": "int64",
          "u8": "uint8", "u16": "uint16", "u32": "uint32", "u64": "uint64"}
PRIM = {"int8": "Int8", "int16": "Int16", "int32": "Int32", "int64": "Int64",
        "uint8": "UInt8", "uint16": "UInt16", "uint32": "UInt32", "uint64": "UInt64"}
TAST = {"int8": "TInt8", "int16": "TInt16", "int32": "TInt32", "int64": "TInt64",
        "uint8": "TUint8", "uint16": "TUint16", "uint32": "TUint32", "uint64": "TUint64"}
SRC_SYM = {"Add": "+", "Sub": "-", "Mul": "*", "Div": "/", "And": "&&", "Or": "||", "Less": "<", "Greater": ">",
           "LessEq": "<=", "GreaterEq": ">=", "Eq": "==", "NotEq": "!=", "Neg": "-", "Not": "!"}


def rng_of(ty):
    s, b = SPEC[ty]
    return (-(1 << (b - 1)), (1 << (b - 1)) - 1) if s else (0, (1 << b) - 1)


def in_range(ty, v):
    lo, hi = rng_of(ty)
    return lo <= v <= hi


def go_read_int(text):
    """Go's reading of an integer literal operand `[-]digits` (a leading 0 makes it octal)"""
    neg = text.startswith("-")
    t = text[1:] if neg else text
    if not t or not all(c in "0123456789" for c in t):
        return None
    if len(t) > 1 and t[0] == "0":
        if any(c in "89" for c in t):
            return None
        v = int(t, 8)
    else:
        v = int(t)
    return -v if neg else v


def tdiv(a, b):
    q = abs(a) // abs(b)
    return q if (a >= 0) == (b >= 0) else -q


def src_bin(op, ty, a, b):
    """source meaning: exact arithmetic, wrapped modulo 2^N into the type's range; / truncates toward zero, /0 fails"""
    lo, hi = rng_of(ty)
    m = hi - lo + 1
    w = lambda x: (x - lo) % m + lo
    if op == "Add": return ("int", w(a + b))
    if op == "Sub": return ("int", w(a - b))
    if op == "Mul": return ("int", w(a * b))
    if op == "Div": return ("panic",) if b == 0 else ("int", w(tdiv(a, b)))
    if op == "Neg": return ("int", w(-a))
    if op == "Less": return ("bool", a < b)
    if op == "Greater": return ("bool", a > b)
    if op == "LessEq": return ("bool", a <= b)
    if op == "GreaterEq": return ("bool", a >= b)
    if op == "Eq": return ("bool", a == b)
    if op == "NotEq": return ("bool", a != b)
    return ("illTyped",)


def go_bin(sym, goty, a, b, unary=False):
    """Go meaning of `a sym b` on two NON-constant operands of Go type goty, computed on bit patterns"""
    signed, bits = GO[goty]
    mask = (1 << bits) - 1
    ua, ub = a & mask, b & mask
    def val(u):
        u &= mask
        return u - (1 << bits) if signed and u >> (bits - 1) else u
    if unary:
        return ("int", val((~ua + 1))) if sym == "-" else ("invalid",)
    if sym == "+": return ("int", val(ua + ub))
    if sym == "-": return ("int", val(ua + ((~ub + 1) & mask)))
    if sym == "*": return ("int", val(ua * ub))
    if sym == "/":
        if ub == 0: return ("panic",)
        if not signed: return ("int", ua // ub)
        sa, sb = val(ua), val(ub)
        return ("int", val(tdiv(sa, sb) & mask))
    x, y = (val(ua), val(ub)) if signed else (ua, ub)
    if sym == "<": return ("bool", x < y)
    if sym == ">": return ("bool", x > y)
    if sym == "<=": return ("bool", x <= y)
    if sym == ">=": return ("bool", x >= y)
    if sym == "==": return ("bool", ua == ub)
    if sym == "!=": return ("bool", ua != ub)
    return ("invalid",)


def go_const(sym, goty, a, b, unary=False):
    """Go meaning when every operand is a constant: exact evaluation at compile time; the file is rejected when the
    result is not representable in goty or a constant divisor is zero (Go spec, Constant expressions)"""
    if unary:
        v = -a if sym == "-" else None
    elif sym == "/":
        if b == 0: return ("go-compile-error", "division by zero")
        v = tdiv(a, b)
    elif sym in "+-*":
        v = {"+": a + b, "-": a - b, "*": a * b}[sym]
    else:
        return go_bin(sym, goty, a, b)
    lo, hi = (-(1 << (GO[goty][1] - 1)), (1 << (GO[goty][1] - 1)) - 1) if GO[goty][0] else (0, (1 << GO[goty][1]) - 1)
    return ("int", v) if lo <= v <= hi else ("go-compile-error", f"constant {v} overflows {goty}")


def samples(ty, rnd):
    lo, hi = rng_of(ty)
    if hi - lo < 300:
        return list(range(lo, hi + 1))
    base = {lo, lo + 1, lo + 2, -3, -2, -1, 0, 1, 2, 3, 7, hi - 2, hi - 1, hi, hi // 2, hi // 2 + 1, lo // 2, 10, 100, -7}
    vals = sorted(v for v in base if lo <= v <= hi)
    return vals + [rnd.randint(lo, hi) for _ in range(24)] + [rnd.randint(-50, 50) for _ in range(6) if lo < 0] + [rnd.randint(0, 50) for _ in range(6)]


def float_bits(fr, p, ebits):
    """IEEE-754 bits of the correctly rounded (nearest, ties to even) value of the non-negative rational fr"""
    bias = (1 << (ebits - 1)) - 1
    emin, emax = 1 - bias, bias
    if fr == 0:
        return 0
    e = fr.numerator.bit_length() - fr.denominator.bit_length()
    while Fraction(2) ** e > fr:
        e -= 1
    while Fraction(2) ** (e + 1) <= fr:
        e += 1
    ee = max(e, emin)
    q = fr / Fraction(2) ** (ee - (p - 1))
    m = q.numerator // q.denominator
    rem = q - m
    if rem > Fraction(1, 2) or (rem == Fraction(1, 2) and m % 2 == 1):
        m += 1
    if m == 1 << p:
        m >>= 1
        ee += 1
    if ee > emax:
        return ((1 << ebits) - 1) << (p - 1)  # +inf
    if m < 1 << (p - 1):
        return m  # subnormal (or zero)
    return ((ee + bias) << (p - 1)) | (m - (1 << (p - 1)))


def fields(s):
    return dict(x.split("=", 1) for x in s.split() if "=" in x)


def run(ctx):
    ctx.extract()
    ctx.build_lean(["GomlVerif.Props.C10"])
    if not ctx.build_harness():
        return ctx.finish("proof", {"evaluations": 0, "distinct_nontrivial": 0}, [], "lake build")
    ok, out = ctx.gv("c10")
    rows = vlib.read_tsv(os.path.join(ctx.run_dir, "c10.cases.tsv")) if ok else []
    cases = [r + [""] * (5 - len(r)) for r in rows if len(r) >= 4]
    to_model = [f"{r[0]}\t{r[2]}" for r in cases if r[1] != "FLT"]
    model = ctx.model("c10", to_model) if to_model and os.path.exists(vlib.MODEL) else {}
    rnd = random.Random(ctx.seed)
    n = {k: 0 for k in ("LIT", "NEG", "PAT", "OP", "FLT", "PARSE", "EVAL", "FMT", "TOSTR")}
    eq = dict(n)
    stats = {"lit_accept": 0, "lit_reject_out_of_range": 0, "lit_reject_annotation": 0, "op_value_checks": 0, "op_const_exprs": 0,
             "flt_accept": 0, "flt_reject": 0, "flt_double_rounding_discriminating": 0, "flt_double_rounded": 0, "pat_accept": 0, "pat_reject": 0,
             "pat_known_scrutinee": 0, "pat_inferred_scrutinee": 0, "pat_inferred_accept": 0,
             "pat_inferred_unsuffixed_in_range_rejected_as_mismatch": 0, "neg_accept": 0, "neg_reject": 0, "neg_most_negative_value_not_writable": 0}
    distinct = set()
    samples_out = []
    model_diffs = 0

    def tie_fail(kind, r, pred):
        nonlocal model_diffs
        model_diffs += 1
        if model_diffs <= 20:
            ctx.broken_ties.append((f"{kind} correspondence", f"case {r[0]} {r[2]}: model=`{pred}` impl=`{vlib.unesc(r[3])}`"))

    for r in cases:
        cid, kind, sexp, impl, src = r[0], r[1], r[2], vlib.unesc(r[3]), vlib.unesc(r[4])
        if kind not in n:
            continue
        n[kind] += 1
        pred = (model.get(cid) or [""])[0]
        args = re.findall(r'"((?:[^"\\]|\\.)*)"|([^\s()]+)', sexp)
        args = [a if a or not b else b for a, b in args][1:]
        payload = {"id": cid, "case": sexp, "src": src, "implementation": impl, "model": pred}

        # ---------------------------------------------------------------- LIT
        if kind == "LIT":
            digits, sfx, annot = args[0], ("" if args[1] == "-" else args[1]), ("" if args[2] == "-" else args[2])
            ty = SUFFIX[sfx]
            written = int(digits)
            fits = in_range(ty, written)
            if impl.startswith(pred) and pred:
                eq[kind] += 1
            else:
                tie_fail(kind, r, pred)
            if len(samples_out) < 3 and written > 100:
                samples_out.append({"id": cid, "stream": kind, "case": sexp, "implementation": impl, "model": pred})
            if written > 9:
                distinct.add(("LIT", digits, sfx, annot))
            if impl.startswith("accept "):
                stats["lit_accept"] += 1
                f = fields(impl)
                bad = []
                if annot and annot != ty: bad.append("accepted-at-a-type-other-than-the-suffix-type")
                if not fits: bad.append("out-of-range-literal-accepted")
                if f.get("prim") != PRIM[ty] or f.get("tast") != TAST[ty]: bad.append("wrong-type-in-core")
                if f.get("val") != str(written): bad.append("wrong-value-in-core")
                if f.get("goty") != ty or f.get("declty") != ty: bad.append("wrong-go-type")
                if go_read_int(f.get("golit", "")) != written: bad.append("go-literal-denotes-another-number")
                if f.get("txt") != f"{ty}:{f.get('golit')}": bad.append("printed-go-text-differs-from-goast")
                for b in bad:
                    ctx.report({"oracle": "literal", "kind": b}, f"literal `{digits}{sfx}`: {b}", dict(payload, written=str(written), type=ty))
            elif impl.startswith("reject "):
                if not fits:
                    stats["lit_reject_out_of_range"] += 1
                elif annot and annot != ty:
                    stats["lit_reject_annotation"] += 1
                else:
                    ctx.report({"oracle": "literal", "kind": "in-range-literal-rejected"},
                               f"literal `{digits}{sfx}` is in the range of {ty} but is rejected", dict(payload, written=str(written), type=ty))
            else:
                ctx.report({"oracle": "literal", "kind": "panic-or-unreadable"}, f"literal `{digits}{sfx}`: {impl[:80]}", payload)

        # ---------------------------------------------------------------- NEG
        elif kind == "NEG":
            digits, sfx = args[0], ("" if args[1] == "-" else args[1])
            ty = SUFFIX[sfx]
            mag = int(digits)
            distinct.add(("NEG", digits, sfx))
            if impl == pred and pred:
                eq[kind] += 1
            else:
                tie_fail(kind, r, pred)
            if impl.startswith("accept "):
                stats["neg_accept"] += 1
                f = fields(impl)
                bad = []
                if not in_range(ty, mag): bad.append("out-of-range-literal-accepted")
                if f.get("prim") != PRIM[ty] or f.get("val") != str(mag): bad.append("wrong-value-in-core")
                if f.get("goty") != ty or f.get("declty") != ty or f.get("goop") != "Neg": bad.append("wrong-go-type-or-operator")
                rhs = f.get("txt", "?:?").split(":", 1)[1]
                for b in bad:
                    ctx.report({"oracle": "literal", "kind": b, "form": "negated"}, f"`-{digits}{sfx}`: {b}", payload)
                if not bad:
                    # `-<lit>` is a Go constant expression: exact, then representable at the declared type
                    want = src_bin("Neg", ty, mag, 0)
                    got = ("int", go_read_int(rhs)) if go_read_int(rhs) is not None and in_range(ty, go_read_int(rhs)) else \
                          ("go-compile-error", f"constant {rhs} overflows {ty}")
                    if got != want:
                        sig = {"oracle": "operator", "kind": "go-constant-expression-rejected-by-go-compiler", "why": "constant overflows type"} \
                            if got[0] == "go-compile-error" else {"oracle": "literal", "kind": "negated-literal-denotes-another-number"}
                        ctx.report(sig, f"`-{digits}{sfx}` means {want} but is emitted as `{rhs}` at {ty}: {got}", dict(payload, source_meaning=str(want), go_meaning=str(got)))
            elif impl.startswith("reject "):
                stats["neg_reject"] += 1
                if in_range(ty, mag):
                    ctx.report({"oracle": "literal", "kind": "in-range-literal-rejected", "form": "negated"}, f"`-{digits}{sfx}` rejected", payload)
                elif in_range(ty, -mag):
                    stats["neg_most_negative_value_not_writable"] += 1
            else:
                ctx.report({"oracle": "literal", "kind": "panic-or-unreadable", "form": "negated"}, f"`-{digits}{sfx}`: {impl[:80]}", payload)

        # ---------------------------------------------------------------- PAT
        elif kind == "PAT":
            digits, sfx, scrut = args[0], ("" if args[1] == "-" else args[1]), args[2]
            shape = args[3] if len(args) > 3 else "param"
            inferred = shape in ("arith", "let", "closure", "generic", "ifexpr")
            # the type the pattern must denote its number at: its suffix's type, else the scrutinee's type — whether that
            # type was written down (known) or only inferred
            ty = SUFFIX[sfx] if sfx else scrut
            written = int(digits)
            fits = in_range(ty, written)
            distinct.add(("PAT", digits, sfx, scrut, shape))
            stats["pat_inferred_scrutinee" if inferred else "pat_known_scrutinee"] += 1
            if impl.startswith(pred) and pred:
                eq[kind] += 1
            else:
                tie_fail(kind, r, pred)
            if len(samples_out) < 8 and inferred and written > 100 and scrut in ("uint8", "int32") and shape in ("arith", "closure") and not sfx:
                samples_out.append({"id": cid, "stream": kind, "case": sexp, "implementation": impl, "model": pred})
            where = f"a {scrut} scrutinee ({'type inferred: ' + shape if inferred else 'type known: ' + shape})"
            if impl.startswith("accept "):
                stats["pat_accept"] += 1
                stats["pat_inferred_accept"] += inferred
                f = fields(impl)
                m = re.fullmatch(r"var:(\w+)/lit:(\w+):(-?\d+)", f.get("cases", ""))
                bad = []
                if ty != scrut: bad.append("accepted-at-a-type-other-than-the-scrutinee-type")
                if not in_range(scrut, written): bad.append("out-of-range-literal-accepted")
                if f.get("core") != f"{PRIM[scrut]}:{written}:{TAST[scrut]}": bad.append("wrong-value-in-core")
                if not m or m.group(1) != scrut or m.group(2) != scrut: bad.append("wrong-go-type")
                elif go_read_int(m.group(3)) != written or f.get("txt") != m.group(3): bad.append("go-literal-denotes-another-number")
                for b in bad:
                    ctx.report({"oracle": "pattern-literal", "kind": b, "scrutinee": "inferred" if inferred else "known"},
                               f"pattern `{digits}{sfx}` on {where} is accepted; Core holds `{f.get('core')}` and Go gets `case {f.get('txt')}:`: {b}",
                               dict(payload, written=str(written), scrutinee_type=scrut, shape=shape))
            elif impl.startswith("reject "):
                stats["pat_reject"] += 1
                if fits and ty == scrut:
                    if inferred and not sfx:
                        # not a violation of the statement (nothing wrong is accepted): an unsuffixed pattern is validated as
                        # int32 while the scrutinee's type is still unknown, and the program is then refused as a type mismatch
                        stats["pat_inferred_unsuffixed_in_range_rejected_as_mismatch"] += 1
                    else:
                        ctx.report({"oracle": "pattern-literal", "kind": "in-range-literal-rejected", "scrutinee": "inferred" if inferred else "known"},
                                   f"pattern `{digits}{sfx}` on {where} is in range but rejected", dict(payload, written=str(written)))
            else:
                msg = impl[6:].strip() if impl.startswith("panic ") else impl
                ctx.report({"oracle": "pattern-literal", "kind": "panic", "form": "unsuffixed" if not sfx else "suffixed", "message": msg[:80]},
                           f"integer literal pattern `{digits}{sfx}` on {where} is accepted by the typer and then the compiler panics: {msg[:80]}",
                           dict(payload, written=str(written)))

        # ---------------------------------------------------------------- OP
        elif kind == "OP":
            unary = sexp.startswith("(unop")
            op, ty, shape, lv, rv = args[0], args[1], args[2], args[3], (args[4] if len(args) > 4 else "")
            distinct.add(("OP", op, ty, shape))
            if not impl.startswith("ok "):
                ctx.report({"oracle": "operator", "kind": "operator-program-not-compiled"}, f"{op} at {ty} ({shape}): {impl[:100]}", payload)
                continue
            parts = [p.strip() for p in impl[3:].split(" | ")]
            nodes = [p for p in parts if p.startswith(("bin ", "un "))]
            if len(nodes) != 1:
                ctx.report({"oracle": "operator", "kind": "not-exactly-one-go-operator"}, f"{op} at {ty} ({shape}): {len(nodes)} Go operator nodes", payload)
                continue
            node = nodes[0]
            stripped = re.sub(r"(lit:\w+):\S+", r"\1", node)
            stripped = re.sub(r" text=\S+", "", stripped)
            if stripped == pred:
                eq[kind] += 1
            else:
                tie_fail(kind, r, pred)
            f = fields(node)
            sym = f.get("sym", "?")
            if len(samples_out) < 6 and shape in ("vv", "v") and op in ("Div", "Less"):
                samples_out.append({"id": cid, "stream": kind, "case": sexp, "implementation": impl, "model": pred})
            opnds = [f.get("arg")] if unary else [f.get("lhs"), f.get("rhs")]
            lits = [lv] if unary else [lv, rv]
            if ty in ("float32", "float64", "bool"):
                # validation only: the Go operator is spelled like the source operator and is applied to operands of the right Go type
                want = [f"{'var' if k == 'v' else 'lit'}:{ty}" for k in shape]
                got = [":".join((o or "").split(":")[:2]) for o in opnds]
                if sym != SRC_SYM[op] or got != want:
                    ctx.report({"oracle": "operator", "kind": "wrong-go-operator-or-operand-type", "class": "float" if ty != "bool" else "bool"},
                               f"{op} at {ty} is emitted as `{f.get('text')}` on {got}", payload)
                continue
            # integer types: evaluate the emitted Go operator against the source meaning
            kinds, gotys, consts = [], [], []
            for o, k, lit in zip(opnds, shape, lits):
                p = (o or "").split(":")
                kinds.append(p[0]); gotys.append(p[1] if len(p) > 1 else "?")
                consts.append(go_read_int(p[2]) if p[0] == "lit" and len(p) > 2 else None)
                if p[0] == "lit" and consts[-1] != int(lit):
                    ctx.report({"oracle": "operator", "kind": "literal-operand-denotes-another-number"}, f"operand `{lit}` printed as `{o}`", payload)
            if any(g not in GO for g in gotys) or len(set(gotys)) != 1:
                ctx.report({"oracle": "operator", "kind": "operands-not-of-one-sized-go-integer-type"}, f"{op} at {ty}: operand Go types {gotys}", payload)
                continue
            goty = gotys[0]
            vals = [[c] if c is not None else samples(ty, rnd) for c in consts]
            all_const = all(c is not None for c in consts)
            if all_const:
                stats["op_const_exprs"] += 1
            pairs = [(a,) for a in vals[0]] if unary else [(a, b) for a in vals[0] for b in vals[1]]
            for pr in pairs:
                a, b = pr[0], (pr[1] if len(pr) > 1 else 0)
                want = src_bin(op, ty, a, b)
                if GO[goty] != SPEC[ty] and not in_range(goty, a):
                    got = ("go-compile-error", "operand not representable")
                elif all_const:
                    got = go_const(sym, goty, a, b, unary)
                elif (not unary) and sym == "/" and consts[1] == 0:
                    got = ("go-compile-error", "division by zero")
                else:
                    got = go_bin(sym, goty, a, b, unary)
                stats["op_value_checks"] += 1
                if got != want:
                    if got[0] == "go-compile-error":
                        sig = {"oracle": "operator", "kind": "go-constant-expression-rejected-by-go-compiler",
                               "why": "division by zero" if "zero" in got[1] else "constant overflows type"}
                        what = (f"`{src.splitlines()[1].strip()}` at {ty} means {want} but is emitted as the Go constant expression "
                                f"`{f.get('text', '').replace('_', ' ')}`, which the Go compiler rejects ({got[1]})")
                    else:
                        sig = {"oracle": "operator", "kind": "go-operator-disagrees-with-source-operator", "op": op}
                        what = f"{op} at {ty} on ({a}, {b}): source meaning {want}, emitted Go `{f.get('text')}` on {goty} gives {got}"
                    ctx.report(sig, what, dict(payload, operands=[str(a), str(b)], source_meaning=str(want), go_meaning=str(got)))
                    break

        # ---------------------------------------------------------------- FLT (validation only)
        elif kind == "FLT":
            text, sfx = args[0], ("" if args[1] == "-" else args[1])
            f32 = sfx == "f32"
            p, eb = (24, 8) if f32 else (53, 11)
            written = Fraction(text)
            want = float_bits(written, p, eb)
            inf = ((1 << eb) - 1) << (p - 1)
            width = 8 if f32 else 16
            f = fields(impl)
            ref = f.get("ref32" if f32 else "ref64")
            distinct.add(("FLT", text, sfx))
            if ref not in (None, "err") and int(ref, 16) != want:
                ctx.broken_ties.append(("float oracle", f"case {cid}: python rounding {want:0{width}x} != Rust parse {ref} for {text}"))
            if f32 and f.get("ref32") != f.get("dbl32"):
                stats["flt_double_rounding_discriminating"] += 1
            if impl.startswith("accept "):
                stats["flt_accept"] += 1
                bits = int(f.get("bits", "0"), 16) if f.get("bits", "?") != "?" else -1
                if want == inf:
                    ctx.report({"oracle": "float-literal", "kind": "out-of-range-literal-accepted"}, f"`{text}{sfx}` overflows but is accepted", payload)
                elif bits != want:
                    dbl = f32 and f.get("dbl32") == f.get("bits")
                    stats["flt_double_rounded"] += dbl
                    ctx.report({"oracle": "float-literal", "kind": "float32-double-rounding" if dbl else "wrong-value-in-core"},
                               f"`{text}{sfx}` must round to {want:0{width}x} but Core holds {f.get('bits')}", payload)
                gotxt = f.get("txt", "?:?").split(":", 1)[1]
                try:
                    goval = float_bits(Fraction(gotxt), p, eb)
                except Exception:
                    goval = -1
                gty = "float32" if f32 else "float64"
                if goval != want or f.get("goty") != gty or f.get("declty") != gty:
                    ctx.report({"oracle": "float-literal", "kind": "go-literal-denotes-another-number"},
                               f"`{text}{sfx}`: printed Go literal `{gotxt}` at {f.get('declty')} reads as {goval:x}, expected {want:x}", payload)
            elif impl.startswith("reject "):
                stats["flt_reject"] += 1
                maxfin = Fraction((1 << p) - 1) * Fraction(2) ** ((1 << (eb - 1)) - 1 - (p - 1))
                if written <= maxfin:
                    ctx.report({"oracle": "float-literal", "kind": "in-range-literal-rejected"}, f"`{text}{sfx}` is finite and in range but rejected", payload)
            else:
                ctx.report({"oracle": "float-literal", "kind": "panic-or-unreadable"}, f"`{text}{sfx}`: {impl[:80]}", payload)

        # ---------------------------------------------------------------- PARSE / FMT / EVAL: model vs Rust std, plus python's own
        elif kind == "PARSE":
            if pred == impl: eq[kind] += 1
            else: tie_fail(kind, r, pred)
        elif kind == "FMT":
            rust, x = args[0], int(args[1])
            s, b = SPEC[{v: k for k, v in {"int8": "i8", "int16": "i16", "int32": "i32", "int64": "i64", "uint8": "u8", "uint16": "u16", "uint32": "u32", "uint64": "u64"}.items()}[rust]]
            v = x & ((1 << b) - 1)
            v = v - (1 << b) if s and v >> (b - 1) else v
            if pred == impl == str(v): eq[kind] += 1
            else: tie_fail(kind, r, pred)
        elif kind == "EVAL":
            op, rust, x, y = args[0], args[1], int(args[2]), int(args[3])
            ty = {"i8": "int8", "i16": "int16", "i32": "int32", "i64": "int64", "u8": "uint8", "u16": "uint16", "u32": "uint32", "u64": "uint64"}[rust]
            s, b = SPEC[ty]
            conv = lambda u: (lambda v: v - (1 << b) if s and v >> (b - 1) else v)(u & ((1 << b) - 1))
            a_, b_ = conv(x), conv(y)
            mine = src_bin(op, ty, a_, b_)
            mine_s = "panic" if mine[0] == "panic" else f"{mine[0]} {str(mine[1]).lower() if mine[0] == 'bool' else mine[1]}"
            gosem = go_bin(SRC_SYM[op], ty, a_, b_, op == "Neg")
            go_s = "panic" if gosem[0] == "panic" else f"{gosem[0]} {str(gosem[1]).lower() if gosem[0] == 'bool' else gosem[1]}"
            if pred == f"go={impl} sem={impl}" and mine_s == impl and go_s == impl:
                eq[kind] += 1
            else:
                tie_fail(kind, r, pred + f" python-src={mine_s} python-go={go_s}")

        # ---------------------------------------------------------------- TOSTR
        elif kind == "TOSTR":
            m = re.fullmatch(r"helper (\w+) (\w+) (\S+) var:(\w+) ret=string", impl)
            if not m:
                ctx.report({"oracle": "to_string", "kind": "helper-of-unexpected-shape"}, impl, payload)
                continue
            name, gvar, verb, pty = m.groups()
            if pred.startswith(f"helper {name} {gvar} {verb} "):
                eq[kind] += 1
            else:
                tie_fail(kind, r, pred)
            distinct.add(("TOSTR", name))
            ty = name[:-len("_to_string")]
            is_float = ty in ("float32", "float64")
            if pty != ty:
                ctx.report({"oracle": "to_string", "kind": "helper-parameter-of-another-type"}, f"{name} takes {pty}", payload)
            if is_float and verb not in ("%g", "%v", "%f", "%G", "%F"):
                shown = "3.5"
                ctx.report({"oracle": "to_string", "kind": "float-formatted-with-integer-verb", "verb": verb},
                           f"{name} is fmt.Sprintf(\"{verb}\", x): Go prints {ty}_to_string({shown}) as `%!{verb[1:]}({ty}={shown})`, not a decimal "
                           f"(Lean: to_string_verbs_ok fails on the generated table)",
                           dict(payload, witness=f"fn main() -> unit {{ let _ = string_println({ty}_to_string(3.5{'f32' if ty == 'float32' else 'f64'})); () }}",
                                expected_output="3.5", go_output=f"%!{verb[1:]}({ty}={shown})"))
            if not is_float and verb not in ("%d", "%v"):
                ctx.report({"oracle": "to_string", "kind": "integer-not-formatted-in-decimal", "verb": verb}, f"{name} uses {verb}", payload)

    # recorded corpus output (from real Go) for the float programs: must be plain decimals
    corpus_notes = []
    for prog in ("050_float_ops", "053_float_pattern_matching"):
        p = os.path.join(os.environ.get("GV_REPO", "/repo"), "crates/compiler/src/tests/pipeline", prog, "main.gom.out")
        if os.path.exists(p):
            txt = open(p).read()
            bad = re.findall(r"%!\w\([^)]*\)", txt)
            corpus_notes.append(f"{prog}: {'recorded output contains ' + bad[0] if bad else 'recorded output has no %! formatting errors'}")
    ctx.notes += corpus_notes

    if ctx.replay:
        try:
            want = json.load(open(ctx.replay)).get("signature")
            ctx.violations = [v for v in ctx.violations if v[0] == want]
            ctx.notes.append(f"replay: only violations with signature {want} are reported")
        except Exception as e:
            ctx.broken_ties.append(("replay file", str(e)))
    ctx.violations.sort(key=lambda v: ("(unop" in v[2].get("case", ""), len(v[2].get("src", ""))))
    total = sum(n.values())
    cov = {
        "evaluations": total, "distinct_nontrivial": len(distinct),
        "rule": "one case = one program compiled by the real pipeline (LIT/NEG/PAT/OP/FLT), or one call of the Rust std function the compiler uses "
                "(PARSE = str::parse::<iN/uN>, FMT = iN::to_string, EVAL = wrapping_* as a third opinion on the Lean operator semantics), or one runtime "
                "helper (TOSTR). distinct_nontrivial counts distinct LIT inputs with a value > 9, distinct PAT and FLT inputs, distinct (operator,type,"
                "operand shape) triples, NEG inputs and helpers; PARSE/FMT/EVAL are not counted",
        "streams": n, "model_equal": eq, "model_diffs": model_diffs, "impl_oracle_failures": len(ctx.violations),
        "stats": stats, "samples": samples_out,
        "input_distribution": "LIT: every value 0..300 at i8 and u8, ±2 around every boundary of all 8 integer types in every suffix form and unsuffixed, "
                              "with matching and foreign annotations, leading zeros, seeded random 64-bit and wider values; NEG: negated literals around the "
                              "negative end of every type; PAT: literal patterns (suffixed, foreign suffix, unsuffixed) at every scrutinee type, on scrutinees of known type (parameter, let of "
                              "one, negation) and on scrutinees whose type is inferred after the pattern was checked (operator result, un-annotated let "
                              "of one, closure parameter, generic call result, if result) with values in range / at the boundary / just outside / far "
                              "outside the scrutinee type but inside int32 / around int32's end; OP: 10 arithmetic/comparison "
                              "operators + neg × 8 integer types × operand shapes var/var, var/lit, lit/var, lit/lit (incl. overflowing and zero-divisor "
                              "literal pairs), bool and float operators; each integer OP case is evaluated on all 256×256 operand pairs (8-bit) or "
                              "boundary+random pairs against the source meaning; FLT: decimals, f32 rounding midpoints ± 10^-k, range ends, subnormals",
    }
    ctx.assumptions += [
        "Go's semantics of + - * / < <= > >= == != - ! on sized integers is what the Go specification says (goBinInt in Lean, go_bin in the oracle); no Go toolchain exists to observe it",
        "floats: validation only, no theorem; Go's float32 arithmetic is assumed to round every operation to single precision (the Go spec permits fused multiply-add across statements on some architectures; emitted code has no explicit float32(...) conversions)",
        "fmt.Sprintf(\"%d\") on an integer renders it in decimal (sprintfD); %g/%v on floats are taken as 'readable decimal form' without modelling their exact digits",
        "integer literal bodies are digit strings (the lexer regex [0-9]+ is extracted and checked); a leading '-' is the negation operator, so the most negative value of a signed type cannot be written as one literal",
    ]
    tb = ["Lean 4 kernel", "axioms: " + ",".join(ctx.proof["axioms"] or ["none"]),
          "tools/extract.py (regex translator for OpMap/ToString/NumTypes; shape assertions)",
          "harness/src/c10.rs (program templates, goast/Core walkers)", "tools/props/c10.py (oracles: SPEC/GO tables, src_bin/go_bin/go_const, float_bits)"]
    return ctx.finish("proof", cov, tb, "lake build GomlVerif.Props.C10 && lake env lean Axioms.lean (#print axioms)")
