"""C11 — source text is read as written: precedence, associativity, literal fidelity.

proof (Props/C11.lean over Model/Pratt.lean, Model/StrLit.lean and the regenerated Gen/BindingPower.lean)
+ correspondence: trees → model printMin → real parse_ast_file → dumped ast::Expr, compared with
  (i) the original tree (property oracle, independent of the model's parser) and (ii) the model's parse (tie);
  literal spellings → whole pipeline → the EPrim that reaches Core, compared with the denoted value
  (oracle) and with the model's decoding (tie)."""
import os, re
import vlib
from props import lowertie


# ------------------------------------------------------------------ S-expressions (trees)
def sx_parse(s):
    toks = re.findall(r'\(|\)|"(?:\\.|[^"\\])*"|[^\s()]+', s)
    pos = 0
    def rd():
        nonlocal pos
        t = toks[pos]; pos += 1
        if t == "(":
            xs = []
            while toks[pos] != ")":
                xs.append(rd())
            pos += 1
            return xs
        return t
    return rd()

def sx_text(t):
    return t if isinstance(t, str) else "(" + " ".join(sx_text(x) for x in t) + ")"

def children(t):
    k = t[0]
    if k == "u": return [t[2]]
    if k == "b": return [t[2], t[3]]
    if k == "c": return t[1:]
    if k in ("f", "p"): return [t[1]]
    return []

def with_children(t, cs):
    k = t[0]
    if k == "u": return ["u", t[1], cs[0]]
    if k == "b": return ["b", t[1], cs[0], cs[1]]
    if k == "c": return ["c"] + cs
    if k in ("f", "p"): return [k, cs[0], t[2]]
    return t

def size(t):
    return 1 + sum(size(c) for c in children(t))

def kind(t):
    k = t[0]
    return {"v": "var", "i": "lit", "u": "prefix", "b": "binary", "f": "field", "p": "proj"}.get(k) or \
        ("call%d" % (len(t) - 2) if len(t) - 2 < 2 else "call2+")

def skeleton(t):
    if t[0] in ("v", "i") and t[1][:1] in ("#", "$"):
        return "rigid-primary" if t[1][0] == "#" else "flexible-primary"
    cs = children(t)
    return kind(t) + ("(" + ",".join(skeleton(c) for c in cs) + ")" if cs else "")

def is_lit(t): return t[0] == "i"

def wf(t):
    """the model's `wf`: a literal (in the atoms stream: any rigid primary expression) is never called
    directly — `7(x)`, `(a, b)(x)`, `if c { f } else { g }(x)` are lowering diagnostics by design"""
    k = t[0]
    if k == "c" and is_lit(t[1]):
        return False
    return all(wf(c) for c in children(t))

def subtrees(t):
    yield t
    for c in children(t):
        yield from subtrees(c)


# ------------------------------------------------------------------ primary expressions of every form
# placeholder → spelling (space separated tokens). `#…` = rigid (the model's `lit`: lowering refuses pending
# postfix operations: "Cannot apply arguments to …"), `$…` = flexible (the model's `var`: identifier-like,
# pending operations are simply applied: paths, constructor applications, parenthesised expressions)
ATOM_SPELLINGS = {
    "$id": "foo", "$path": "pkg :: item", "$ctorcall": "Foo ( 1 )", "$paren": "( a )",
    "$parenclosure": "( | x | x )", "$parenif": "( if c { a } else { b } )", "$parentuple": "( ( a , b ) )",
    "#int": "7", "#i64": "7i64", "#float": "1.5", "#f32": "2.5f32", "#str": "\"abc\"", "#true": "true",
    "#unit": "( )", "#tuple": "( twice , thrice )", "#tuple1": "( a , )", "#array": "[ a , b ]",
    "#struct": "Point { x : 1 , y : 2 }", "#structempty": "Unit { }",
    "#if": "if c { a } else { b }", "#match": "match s { Foo ( q ) => q , _ => 0 }", "#while": "while c { a }",
}
ATOMS = {}   # placeholder → {"spelling", "dump"}; dumps are the real parse of the atom on its own

def load_atoms(ctx):
    f = os.path.join(ctx.run_dir, "c11.texts.atoms.tsv")
    names = sorted(ATOM_SPELLINGS)
    open(f, "w").write("".join(f"atom{i}\t{ATOM_SPELLINGS[n]}\n" for i, n in enumerate(names)))
    ok, out = ctx.gv("c11", ["parse", "--file", f])
    got = {}
    if ok:
        for r in vlib.read_tsv(os.path.join(ctx.run_dir, "c11.parsed.tsv")):
            if len(r) >= 5 and r[1] == "PARSED" and r[2] == "canon":
                got[r[0]] = r[3]
    for i, n in enumerate(names):
        d = got.get(f"atom{i}", "ERR:missing")
        if d.startswith(("ERR:", "PANIC:")):
            ctx.broken_ties.append(("atoms stream", f"the primary expression `{ATOM_SPELLINGS[n]}` does not parse on its own: {d}"))
            continue
        ATOMS[n] = {"spelling": ATOM_SPELLINGS[n], "dump": d}

def subst_text(text):
    if "#" not in text and "$" not in text:
        return text
    return " ".join(ATOMS[w]["spelling"] if w in ATOMS else w for w in text.split(" "))

def subst_sexp(s):
    if "#" not in s and "$" not in s:
        return s
    for n, a in ATOMS.items():
        s = s.replace(("(i %s)" if n[0] == "#" else "(v %s)") % n, a["dump"])
    return s

BIN_SYM = {"or": "||", "and": "&&", "eq": "==", "ne": "!=", "lt": "<", "gt": ">", "le": "<=", "ge": ">=",
           "add": "+", "sub": "-", "mul": "*", "div": "/"}

def full_text(t):
    """the tree with parentheses around every operand that is not a primary expression (made here,
    independently of the model's printer)"""
    def op(x):
        return full_text(x) if x[0] in ("v", "i") else "( " + full_text(x) + " )"
    k = t[0]
    if k in ("v", "i"): return t[1]
    if k == "u": return ("-" if t[1] == "neg" else "!") + " " + op(t[2])
    if k == "b": return op(t[2]) + " " + BIN_SYM[t[1]] + " " + op(t[3])
    if k == "c": return op(t[1]) + " (" + "".join(" " + full_text(a) + (" ," if i + 1 < len(t) - 2 else "") for i, a in enumerate(t[2:])) + " )"
    if k == "f": return op(t[1]) + " . " + t[2]
    return op(t[1]) + " . " + t[2]

def atom_trees():
    """every primary expression × every postfix chain of length 1..3 over {call(), call(k), .fld, .0}
    × prefix operators {none, -, !, - !} × context {alone, left of +, right of *, call argument}"""
    import itertools
    links = ["call0", "call1", "field", "proj"]
    def apply(t, l):
        if l == "call0": return ["c", t]
        if l == "call1": return ["c", t, ["v", "k"]]
        if l == "field": return ["f", t, "fld"]
        return ["p", t, "0"]
    out = []
    for name in sorted(ATOMS):
        atom = ["i", name] if name[0] == "#" else ["v", name]
        for n in (1, 2, 3):
            for chain in itertools.product(links, repeat=n):
                if name[0] == "#" and chain[0].startswith("call"):
                    continue          # a rigid primary expression is not callable (by design, see wf)
                t = atom
                for l in chain:
                    t = apply(t, l)
                for pre in ((), ("neg",), ("not",), ("neg", "not")):
                    u = t
                    for o in reversed(pre):
                        u = ["u", o, u]
                    for ctxk in ("alone", "left", "right", "arg"):
                        w = {"alone": u, "left": ["b", "add", u, ["v", "z"]], "right": ["b", "mul", ["v", "z"], u],
                             "arg": ["c", ["v", "g"], u]}[ctxk]
                        out.append((sx_text(w), name, "/".join(chain), "".join(p[0] for p in pre) or "-", ctxk))
    return out


def long_chain_trees():
    """prefix operator × postfix chains of length 4 and 5 over {call(), call(k), .fld, .0} on one flexible and
    one rigid primary expression (lengths 1..3 on every primary expression are in atom_trees): every sequence of
    node kinds that a pending postfix operation can be handed through, four and five nodes deep"""
    import itertools
    links = ["call0", "call1", "field", "proj"]
    def apply(t, l, k):
        if l == "call0": return ["c", t]
        if l == "call1": return ["c", t, ["v", "k%d" % k]]
        if l == "field": return ["f", t, "fld%d" % k]
        return ["p", t, str(k % 3)]
    out = []
    for name in ("$id", "#int"):
        if name not in ATOMS:
            continue
        atom = ["i", name] if name[0] == "#" else ["v", name]
        for n in (4, 5):
            for chain in itertools.product(links, repeat=n):
                if name[0] == "#" and chain[0].startswith("call"):
                    continue
                t = atom
                for k, l in enumerate(chain):
                    t = apply(t, l, k)
                if n == 4:
                    combos = [((), "alone")] + [(pre, c) for pre in (("neg",), ("not",), ("neg", "not"))
                                                for c in ("alone", "left", "right", "arg")]
                else:
                    combos = [(("neg",), "alone"), (("not",), "alone")]
                for pre, ctxk in combos:
                    u = t
                    for o in reversed(pre):
                        u = ["u", o, u]
                    w = {"alone": u, "left": ["b", "add", u, ["v", "z"]], "right": ["b", "mul", ["v", "z"], u],
                         "arg": ["c", ["v", "g"], u]}[ctxk]
                    out.append((sx_text(w), name, "/".join(chain), "".join(p[0] for p in pre) or "-", ctxk))
    return out


# ------------------------------------------------------------------ host positions
# every place of the grammar where an expression is read (crates/parser: let, statement, block tail, `if` /
# `while` condition and branches, `match` scrutinee and arms, closure bodies, array / tuple / struct-literal
# elements, call / method / constructor arguments, parentheses, `go`, bodies of functions / methods / generic
# functions). The word HOLE is replaced by the expression text.
_HOST_PRE = "enum Ctor { Foo(int32), Bar }\nstruct Point { x: int32, y: int32 }\n"
def _host_fn(body):
    return _HOST_PRE + "fn t() -> unit {\n" + body + "\n}\n"
HOSTS = [
    ("let", _host_fn("    let r = HOLE ;\n    ( )")),           # the base host: the position the tree streams use
    ("let-annotated", _host_fn("    let r : int32 = HOLE ;\n    ( )")),
    ("let-tuple-pattern", _host_fn("    let ( p , q ) = HOLE ;\n    ( )")),
    ("statement", _host_fn("    HOLE ;\n    ( )")),
    ("statement-second", _host_fn("    let q = 1 ;\n    HOLE ;\n    ( )")),
    ("block-tail", _host_fn("    let q = 1 ;\n    HOLE")),
    ("body-only", _host_fn("    HOLE")),
    ("if-cond", _host_fn("    let r = if HOLE { a } else { b } ;\n    ( )")),
    ("if-then-block", _host_fn("    let r = if c { HOLE } else { b } ;\n    ( )")),
    ("if-else-block", _host_fn("    let r = if c { a } else { HOLE } ;\n    ( )")),
    ("if-else-expr", _host_fn("    let r = if c { a } else HOLE ;\n    ( )")),
    ("match-scrutinee", _host_fn("    let r = match HOLE { Foo ( q ) => q , _ => 0 } ;\n    ( )")),
    ("match-arm", _host_fn("    let r = match s { Foo ( q ) => HOLE , _ => 0 } ;\n    ( )")),
    ("match-arm-last", _host_fn("    let r = match s { _ => HOLE } ;\n    ( )")),
    ("match-arm-block", _host_fn("    let r = match s { _ => { HOLE } } ;\n    ( )")),
    ("while-cond", _host_fn("    while HOLE { a } ;\n    ( )")),
    ("while-body", _host_fn("    while c { HOLE } ;\n    ( )")),
    ("while-body-statement", _host_fn("    let r = ( while c { HOLE ; ( ) } ) ;\n    ( )")),
    ("closure-body", _host_fn("    let r = | q | HOLE ;\n    ( )")),
    ("closure-body-block", _host_fn("    let r = | q | { HOLE } ;\n    ( )")),
    ("closure-noparams", _host_fn("    let r = || HOLE ;\n    ( )")),
    ("closure-typed", _host_fn("    let r = | q : int32 | HOLE ;\n    ( )")),
    ("array-only", _host_fn("    let r = [ HOLE ] ;\n    ( )")),
    ("array-middle", _host_fn("    let r = [ a , HOLE , b ] ;\n    ( )")),
    ("tuple-first", _host_fn("    let r = ( HOLE , b ) ;\n    ( )")),
    ("tuple-last", _host_fn("    let r = ( a , HOLE ) ;\n    ( )")),
    ("struct-field", _host_fn("    let r = Point { x : HOLE , y : 2 } ;\n    ( )")),
    ("struct-field-last", _host_fn("    let r = Point { x : 1 , y : HOLE } ;\n    ( )")),
    ("arg-only", _host_fn("    let r = g ( HOLE ) ;\n    ( )")),
    ("arg-second", _host_fn("    let r = g ( a , HOLE ) ;\n    ( )")),
    ("arg-trailing-comma", _host_fn("    let r = g ( HOLE , ) ;\n    ( )")),
    ("method-arg", _host_fn("    let r = o . m ( HOLE ) ;\n    ( )")),
    ("ctor-arg", _host_fn("    let r = Foo ( HOLE ) ;\n    ( )")),
    ("path-ctor-arg", _host_fn("    let r = Ctor :: Foo ( HOLE ) ;\n    ( )")),
    ("paren", _host_fn("    let r = ( HOLE ) ;\n    ( )")),
    ("paren-paren", _host_fn("    let r = ( ( HOLE ) ) ;\n    ( )")),
    ("go", _host_fn("    go HOLE ;\n    ( )")),
    ("impl-method", _HOST_PRE + "impl Ctor {\n    fn m ( self : Ctor ) -> unit {\n        let r = HOLE ;\n        ( )\n    }\n}\n"),
    ("trait-impl-method", _HOST_PRE + "trait Tr { fn m ( Self ) -> unit ; }\nimpl Tr for Ctor {\n    fn m ( self : Ctor ) -> unit {\n        let r = HOLE ;\n        ( )\n    }\n}\n"),
    ("generic-fn", _HOST_PRE + "fn t [ T ] ( z : T ) -> unit {\n    let r = HOLE ;\n    ( )\n}\n"),
    ("closure-in-arg-in-if", _host_fn("    let r = if c { g ( | q | HOLE ) } else { b } ;\n    ( )")),
]

def host_positions(ctx, texts):
    """texts: list of (id, expression text, tree sexp text or None, stream). Oracle on the implementation alone:
    an expression text is read the same way wherever an expression may stand — the whole file lowered from
    host[text] is the file lowered from host[`hole__`] with the `hole__` expression replaced by what the text is
    read as in the base host (`let r = …;`, the position whose reading the tree streams compare with the tree),
    and a text rejected there is rejected everywhere. Returns coverage."""
    f = os.path.join(ctx.run_dir, "c11.hosts.in.tsv")
    esc = lambda t: t.replace("\\", "\\\\").replace("\n", "\\n").replace("\t", "\\t").replace("\r", "\\r")
    with open(f, "w") as fh:
        for name, tpl in HOSTS:
            fh.write(f"H\t{name}\t{esc(tpl)}\n")
        for cid, text, _, _ in texts:
            fh.write(f"T\t{cid}\t{text}\n")
    ok, out = ctx.gv("c11", ["hosts", "--file", f])
    rows = vlib.read_tsv(os.path.join(ctx.run_dir, "c11.hosts.tsv")) if ok else []
    info = {cid: (text, tree, stream) for cid, text, tree, stream in texts}
    live, n_read, n_ok, n_texts, n_rej = [], 0, 0, 0, 0
    per_stream = {}
    for r in rows:
        if r[0] == "#HOSTS":
            live = r[1].split(",") if len(r) > 1 and r[1] else []
        elif len(r) >= 3 and r[1] == "HOSTBAD":
            ctx.broken_ties.append(("host positions", f"host `{r[0]}` does not read with an identifier in the hole: {vlib.unesc(r[2])[:300]}"))
        elif len(r) >= 4 and r[1] == "HOSTS":
            n_texts += 1
            n_rej += r[2].startswith(("ERR:", "PANIC:"))
            n_ok += int(r[3])
            st = info.get(r[0], ("", None, "?"))[2]
            per_stream[st] = per_stream.get(st, 0) + 1
        elif len(r) >= 6 and r[1] == "HOSTFAIL":
            text, tree, stream = info.get(r[0], ("", None, "?"))
            observed, expected = vlib.unesc(r[4]), vlib.unesc(r[5])
            rej_o, rej_e = observed.startswith(("ERR:", "PANIC:")), expected.startswith(("ERR:", "PANIC:"))
            outcome = "rejected-only-here" if rej_o and not rej_e else "accepted-only-here" if rej_e and not rej_o else "read-differently"
            ctx.report({"oracle": "host-position", "host": r[2], "outcome": outcome},
                       "an expression text is not read the same way in every position where an expression may stand "
                       "(compared with its reading as the initialiser of a `let`)",
                       {"id": r[0], "host": r[2], "text": text, "tree": tree or "", "stream": stream,
                        "source": vlib.unesc(r[3]), "observed_reading(from the first difference)": observed,
                        "expected_reading(host with the `let` reading substituted)": expected})
    n_read = n_texts * len(live)
    if ok and (len(live) != len(HOSTS) or n_texts != len(texts)):
        ctx.broken_ties.append(("host positions", f"{len(live)}/{len(HOSTS)} hosts usable, {n_texts}/{len(texts)} texts answered"))
    return {"hosts": live, "texts": n_texts, "texts_rejected_everywhere": n_rej, "readings": n_read, "readings_ok": n_ok,
            "texts_by_stream": per_stream,
            "rule": "one reading = one text in one host position, parsed and lowered by the real parse_ast_file; ok = the "
                    "lowered file equals the file lowered with an identifier in the hole, with that identifier's expression "
                    "replaced by the reading of the text in the base host `let r = …;`"}


class Round:
    """one batch: trees → model print (+ model parse) → real parse of three renderings"""
    def __init__(self, ctx, tag, with_full=False):
        self.ctx, self.tag, self.with_full = ctx, tag, with_full

    def run(self, items):
        """items: list of (id, tree-sexp-text, given_text|None) → {id: dict}"""
        ctx = self.ctx
        lines = []
        for cid, tree, given in items:
            lines.append(f"{cid}\tprint\t{tree}" if given is None else f"{cid}\tparse\t{given}")
        model = ctx.model("c11", lines) if lines else {}
        res, texts = {}, []
        for cid, tree, given in items:
            m = model.get(cid)
            if not m or (given is None and len(m) < 3) or (given is not None and len(m) < 1):
                ctx.broken_ties.append(("model driver c11", f"{cid}: {m}"))
                continue
            # round 11: the two parser models agree on this token list (Model/PrattGrammar.lean `agrees`)
            gfield = (m[3] if given is None and len(m) > 3 else m[1] if given is not None and len(m) > 1 else "")
            if gfield:
                PG["cases"] += 1
                PG["accepted"] += "accepted=true" in gfield
                if "grammar=true" not in gfield:
                    PG["diffs"] += 1
                    if PG["diffs"] <= 3:
                        ctx.broken_ties.append(("Pratt model vs Grammar model (pratt_is_grammar cross-check)", f"{cid}: {tree} {m[0][:200]}"))
            if given is None:
                res[cid] = {"tree": tree, "text": m[0], "model": subst_sexp(m[1]), "wf": m[2] == "wf=true", "real": {}, "src": {}}
            else:
                res[cid] = {"tree": tree, "text": given, "model": m[0], "wf": True, "real": {}, "src": {}}
            res[cid]["expect"] = subst_sexp(tree)
            res[cid]["full"] = {}
            texts.append(f"{cid}\t{subst_text(res[cid]['text'])}")
            if given is None and self.with_full:
                res[cid]["full_text"] = subst_text(full_text(sx_parse(tree)))
                texts.append(f"{cid}.full\t{res[cid]['full_text']}")
        f = os.path.join(ctx.run_dir, f"c11.texts.{self.tag}.tsv")
        open(f, "w").write("\n".join(texts) + "\n")
        ok, out = ctx.gv("c11", ["parse", "--file", f])
        if ok:
            for r in vlib.read_tsv(os.path.join(ctx.run_dir, "c11.parsed.tsv")):
                if len(r) >= 5 and r[1] == "PARSED" and r[0] in res:
                    res[r[0]]["real"][r[2]] = r[3]
                    res[r[0]]["src"][r[2]] = vlib.unesc(r[4])
                elif len(r) >= 5 and r[1] == "PARSED" and r[0].endswith(".full") and r[0][:-5] in res:
                    res[r[0][:-5]]["full"][r[2]] = r[3]
                elif r[0] == "#TIGHT":
                    self.tight_note = r[1]
        return res


def shrink(ctx, tree, stream):
    """smallest failing relative of `tree`: a failing subtree, then operands replaced by variables"""
    rnd = Round(ctx, "shrink", with_full=True)
    fails = lambda r: any(v != r["expect"] for v in r["real"].values()) or any(v != r["expect"] for v in r["full"].values())
    cur = sx_parse(tree)
    for _ in range(6):
        cands, seen = [], set()
        for s in subtrees(cur):
            if s is not cur:
                cands.append(s)
        def repl(t):
            # replace one operand subtree by a fresh variable
            cs = children(t)
            for i, c in enumerate(cs):
                if c[0] not in ("v",):
                    yield with_children(t, cs[:i] + [["v", "q%d" % i]] + cs[i + 1:])
                for sub in repl(c):
                    yield with_children(t, cs[:i] + [sub] + cs[i + 1:])
        cands += list(repl(cur))
        items = []
        for i, c in enumerate(cands):
            txt = sx_text(c)
            if txt in seen or not wf(c) or size(c) >= size(cur):
                continue
            seen.add(txt)
            items.append((f"s{i}", txt, None))
        if not items:
            break
        res = rnd.run(items)
        failing = [r for r in res.values() if r["real"] and fails(r)]
        if not failing:
            break
        best = min(failing, key=lambda r: (size(sx_parse(r["tree"])), r["tree"]))
        cur = sx_parse(best["tree"])
    return cur


# ------------------------------------------------------------------ \u escapes over the whole code space
def _uesc(cp, upper=False):
    """spelling of one code point with \\u escapes only (a UTF-16 pair above U+FFFF)"""
    f = "\\u%04X" if upper else "\\u%04x"
    if cp < 0x10000:
        return f % cp
    v = cp - 0x10000
    return (f % (0xD800 + (v >> 10))) + (f % (0xDC00 + (v & 0x3FF)))

def _denoted(body):
    """what the text between the quotes denotes, computed here from the source text with Python's JSON
    reader (independent of the compiler and of the Lean model); None = no character sequence
    (a lone or mismatched surrogate escape)"""
    import json
    s = json.loads('"' + body + '"')
    if any(0xD800 <= ord(c) <= 0xDFFF for c in s):
        return None
    return s

def _cps(s):
    return " ".join(str(ord(c)) for c in s)

def u_sweep_cases(tier, seed):
    import random
    rng = random.Random(seed * 7919 + 11)
    ok, rej = [], []          # (class, body)
    bounds = set()
    for plane in range(17):
        b = plane * 0x10000
        bounds.update([b, b + 1, b + 0xFFFF, b + 0xFFFE, b + 0x8000, b + 0x3FF, b + 0x400, b + 0xFC00, b + rng.randrange(0x10000)])
    bounds.update([0x7F, 0x80, 0x7FF, 0x800, 0xD7FF, 0xE000, 0xFFFD, 0xFFFF, 0x10000, 0x10FFFF, 0x1F600, 0x20000, 0x2A6DF, 0xE0001, 0xF0000, 0x100000])
    bounds = sorted(c for c in bounds if not (0xD800 <= c <= 0xDFFF) and c <= 0x10FFFF)
    for cp in bounds:
        for upper in (False, True):
            ok.append(("uesc-boundary-plane%d" % (cp >> 16), "a" + _uesc(cp, upper) + "b"))
        if cp >= 0x20 and cp not in (0x22, 0x5C, 0x7F) and not (0x80 <= cp < 0xA0):
            raw = chr(cp)
            ok.append(("uesc-mixed-raw-plane%d" % (cp >> 16), raw + _uesc(cp) + "x" + _uesc(cp, True) + raw))
    # every high surrogate with a few low ones, every low surrogate with a few high ones
    for hi in range(0xD800, 0xDC00):
        for lo in (0xDC00, 0xDFFF, 0xDC00 + ((hi * 37 + seed) & 0x3FF)):
            ok.append(("uesc-pair-all-high", "\\u%04x\\u%04X" % (hi, lo)))
    for lo in range(0xDC00, 0xE000):
        for hi in (0xD800, 0xDBFF, 0xD840, 0xD83D, 0xD800 + ((lo * 53 + seed) & 0x3FF)):
            ok.append(("uesc-pair-all-low", "\\u%04X\\u%04x" % (hi, lo)))
    n_rand = 20000 if tier == "thorough" else 1500
    for _ in range(n_rand):
        k = rng.randrange(1, 5)
        body = ""
        for _ in range(k):
            cp = rng.choice([rng.randrange(0x20, 0xD800), rng.randrange(0xE000, 0x10000), rng.randrange(0x10000, 0x110000),
                             rng.randrange(0x10000, 0x110000), rng.choice(bounds)])
            r = rng.random()
            if r < 0.7 or cp < 0x20 or cp in (0x22, 0x5C) or 0x7F <= cp < 0xA0:
                body += _uesc(cp, rng.random() < 0.5)
            else:
                body += chr(cp)
        ok.append(("uesc-random", body))
    # lone / mismatched surrogates: no character is denoted, a diagnostic is expected
    for hi in (0xD800, 0xD83D, 0xDBFF):
        for tail in ("", "x", "\\n", "\\u0041", "\\u%04x" % hi, "\\uD7FF", "\\uE000", " \\udc00", "\\\\udc00"):
            rej.append(("uesc-lone-high", "a\\u%04x%s" % (hi, tail)))
    for lo in (0xDC00, 0xDE00, 0xDFFF):
        for tail in ("", "x", "\\ud800", "\\u%04x" % lo):
            rej.append(("uesc-lone-low", "\\u%04x%s" % (lo, tail)))
    for _ in range(60 if tier == "thorough" else 12):
        rej.append(("uesc-lone-high", "\\u%04x" % rng.randrange(0xD800, 0xDC00) + rng.choice(["", "z", "\\u%04x" % rng.randrange(0, 0xD800)])))
        rej.append(("uesc-lone-low", rng.choice(["", "q"]) + "\\u%04X" % rng.randrange(0xDC00, 0xE000)))
    return ok, rej

def u_sweep(ctx, have_model, replay_cases=None):
    """string literals, string patterns and multi-line strings whose text uses \\u escapes over the
    whole code space; oracle = code points denoted by the source text (computed by _denoted)"""
    ok, rej = u_sweep_cases(ctx.tier, ctx.seed) if replay_cases is None else ([], [])
    progs, meta = [], {}
    def add(kind, cls, bodies, src, expect):
        pid = "u%d" % len(progs)
        progs.append((pid, src))
        meta[pid] = {"kind": kind, "class": cls, "bodies": bodies, "src": src, "expect": expect}
        return pid
    def lit_prog(bodies):
        return "fn main() -> unit {\n" + "".join('    let x%d = "%s";\n' % (i, b) for i, b in enumerate(bodies)) + "    ()\n}\n"
    def pat_prog(raw, body):
        return 'fn main() -> unit {\n    let r = match "%s" {\n        "%s" => 1,\n        _ => 0,\n    };\n    ()\n}\n' % (raw, body)
    # sanity of the generator itself: everything in `ok` denotes something, nothing in `rej` does
    for cls, b in ok:
        assert _denoted(b) is not None and _denoted(b) != "", (cls, b)
    for cls, b in rej:
        assert _denoted(b) is None, (cls, b)
    PACK = 40
    for i in range(0, len(ok), PACK):
        chunk = ok[i:i + PACK]
        add("lit-pack", "packed", [b for _, b in chunk], lit_prog([b for _, b in chunk]),
            sorted(_cps(_denoted(b)) for _, b in chunk))
    for cls, b in rej:
        add("lit", cls, [b], lit_prog([b]), None)
    # string patterns: the escaped spelling in a match arm against the raw UTF-8 spelling as scrutinee
    pats = [(c, b) for c, b in ok if c.startswith("uesc-boundary")]
    pats += [(c, b) for k, (c, b) in enumerate(ok) if c == "uesc-pair-all-high" and k % 3 == 2]
    pats += [(c, b) for k, (c, b) in enumerate(ok) if c == "uesc-random"][: (2000 if ctx.tier == "thorough" else 200)]
    def rawable(s):
        return all(ord(ch) >= 0x20 and ch not in '"\\' and not (0x7F <= ord(ch) < 0xA0) for ch in s)
    for cls, b in pats:
        d = _denoted(b)
        if rawable(d):
            add("pat", "pat-" + cls, [b], pat_prog(d, b), sorted([_cps(d), _cps(d)]))
    for cls, b in rej[::3]:
        add("pat", "pat-" + cls, [b], pat_prog("zz", b), None)
    # multi-line strings are raw: a \u escape there denotes its own six characters
    for b in ("\\ud840\\udc00", "\\u0041 \\uD800", "\U00020000\\uD840\\uDC00"):
        src = "fn main() -> unit {\n    let x =\n        \\\\%s\n        \\\\end\n    ;\n    ()\n}\n" % b
        add("mstr", "mstr-uesc-raw", [b], src, [_cps(b + "\nend")])

    for c in replay_cases or []:
        kind = "pat" if "match" in c["source"] else ("mstr" if c["class"].startswith("mstr") else "lit")
        add(kind, c["class"], [c["spelling"][1:-1]], c["source"], c["expected_code_points"])
    f = os.path.join(ctx.run_dir, "c11.strs.in.tsv")
    esc = lambda t: t.replace("\\", "\\\\").replace("\n", "\\n").replace("\t", "\\t").replace("\r", "\\r")
    def run(ps):
        open(f, "w", encoding="utf-8").write("".join(f"{pid}\t{esc(src)}\n" for pid, src in ps))
        okk, out = ctx.gv("c11", ["strs", "--file", f])
        res = {}
        if okk:
            for r in vlib.read_tsv(os.path.join(ctx.run_dir, "c11.strs.tsv")):
                if len(r) >= 3 and r[1] == "STRS":
                    res[r[0]] = (r[2], r[3] if len(r) > 3 else "")
        return res
    res = run(progs)
    # a packed program that is not as expected is re-run one literal at a time
    redo = []
    for pid, m in list(meta.items()):
        if m["kind"] == "lit-pack":
            st, val = res.get(pid, ("MISSING", ""))
            if not (st == "OK" and sorted(val.split("|")) == m["expect"]):
                for b in m["bodies"]:
                    q = "r%d" % len(redo)
                    redo.append((q, lit_prog([b])))
                    meta[q] = {"kind": "lit", "class": "unpacked", "bodies": [b], "src": lit_prog([b]), "expect": [_cps(_denoted(b))]}
                del meta[pid]
    if redo:
        res.update(run(redo))
    # model: decoding of every literal body (tie)
    model_in, bidx = [], {}
    for pid, m in meta.items():
        if m["kind"] == "mstr":
            continue
        for j, b in enumerate(m["bodies"]):
            mid = f"{pid}.{j}"
            bidx[mid] = b
            model_in.append(f"{mid}\tstr\t{_cps(b)}")
    mres = ctx.model("c11", model_in) if (model_in and have_model) else {}
    n = n_ok = n_tie = n_lits = n_diff = 0
    classes = {}
    samples = []
    for pid, m in meta.items():
        st, val = res.get(pid, ("MISSING", ""))
        n += 1
        n_lits += len(m["bodies"])
        classes[m["kind"] + ":" + m["class"].split("-plane")[0]] = classes.get(m["kind"] + ":" + m["class"].split("-plane")[0], 0) + len(m["bodies"])
        exp = m["expect"]
        good = (st == "ERR" and val.startswith("lower:")) if exp is None else (st == "OK" and sorted(val.split("|")) == exp)
        if good:
            n_ok += 1
        else:
            b = m["bodies"][0]
            where = {"lit": "string literal", "lit-pack": "string literal", "pat": "string pattern", "mstr": "multi-line string"}[m["kind"]]
            if exp is None:
                sig = {"oracle": "literal-value", "class": "str-escape-surrogate", "site": where, "outcome": "accepted-without-denotation"}
                what = "a lone or mismatched surrogate escape denotes no character but is accepted"
            else:
                sig = {"oracle": "literal-value", "class": "str-escape-u" if m["kind"] != "mstr" else "mstr", "site": where,
                       "outcome": "rejected" if st != "OK" else "wrong-value"}
                what = "a \\u escape (or UTF-16 surrogate pair of escapes) does not denote the code point written"
            ctx.report(sig, what, {"id": pid, "class": m["class"], "spelling": '"%s"' % b,
                                   "expected_code_points": exp, "observed": f"{st} {val}", "source": m["src"]})
        # tie: the model's decoding of each body = what the implementation produced
        if m["kind"] != "mstr":
            for j, b in enumerate(m["bodies"]):
                mv = (mres.get(f"{pid}.{j}") or ["?"])[0]
                d = _denoted(b)
                want = "REJECT" if d is None else _cps(d)
                impl = want if good else None
                if impl is None and len(m["bodies"]) == 1:
                    if st == "ERR" and val.startswith("lower:"):
                        impl = "REJECT"
                    elif st == "OK" and val:
                        vals = val.split("|")
                        if m["kind"] == "pat" and exp and exp[0] in vals:
                            vals.remove(exp[0])          # the raw-UTF-8 scrutinee; what is left is the pattern constant
                        impl = vals[0] if len(vals) == 1 else "?"
                    else:
                        impl = "?"
                if mv == impl:
                    n_tie += 1
                else:
                    n_diff += 1
                    if n_diff <= 6:
                        ctx.broken_ties.append(("model≠implementation (\\u escapes)", f"{pid} \"{b}\": real={st} {val[:80]} model={mv}"))
        if len(samples) < 3 and m["kind"] in ("lit", "pat") and (exp is None or m["kind"] == "pat") and not any(x["kind"] == m["kind"] and (x["expected"] is None) == (exp is None) for x in samples):
            samples.append({"id": pid, "kind": m["kind"], "class": m["class"], "spelling": '"%s"' % m["bodies"][0],
                            "expected": exp, "observed": f"{st} {val}"})
    if n_diff > 6:
        ctx.broken_ties.append(("model≠implementation (\\u escapes)", f"… {n_diff - 6} more"))
    return {"programs": n, "programs_ok": n_ok, "literals": n_lits, "tie_ok": n_tie, "tie_total": len(model_in),
            "classes(literals)": classes, "samples": samples}


PG = {"cases": 0, "accepted": 0, "diffs": 0}


def run(ctx):
    PG.update(cases=0, accepted=0, diffs=0)
    ctx.extract()
    ctx.build_lean(["GomlVerif.Props.C11", "GomlVerif.Props.Lower"])
    if not ctx.build_harness():
        return ctx.finish("proof", {"evaluations": 0, "distinct_nontrivial": 0}, [], "lake build")
    have_model = os.path.exists(vlib.MODEL)
    cov = {}

    # ---------------------------------------------------------------- trees
    load_atoms(ctx)
    atom_info = {}
    if ctx.replay:
        import json
        rp = json.load(open(ctx.replay))
        items = []
        for i, c in enumerate(rp.get("cases", [])):
            if c.get("tree"):
                items.append((f"r{i}", c["tree"], c.get("given_text")))
        streams = {cid: "replay" for cid, _, _ in items}
        kinds = {cid: "replay" for cid, _, _ in items}
    else:
        ok, out = ctx.gv("c11", ["gen"])
        rows = vlib.read_tsv(os.path.join(ctx.run_dir, "c11.trees.tsv")) if ok else []
        items, streams, kinds = [], {}, {}
        for r in rows:
            if r[0] == "#SIZES":
                cov["tree_sizes(nodes:count)"] = r[1]
            if len(r) >= 5 and r[1] == "TREE":
                items.append((r[0], r[4], r[5] if len(r) > 5 else None))
                streams[r[0]] = r[2]
                kinds[r[0]] = r[3]
        for k, (tree, name, chain, pre, ctxk) in enumerate(atom_trees()):
            cid = f"a{k}"
            items.append((cid, tree, None))
            streams[cid] = "atoms"
            kinds[cid] = "atom" + name
            atom_info[cid] = (name, chain, pre, ctxk)
        for k, (tree, name, chain, pre, ctxk) in enumerate(long_chain_trees()):
            cid = f"l{k}"
            items.append((cid, tree, None))
            streams[cid] = "chains"
            kinds[cid] = "chain%d" % (chain.count("/") + 1)
            atom_info[cid] = (name, chain, pre, ctxk)
    rnd = Round(ctx, "main", with_full=True)
    res = rnd.run(items) if (items and have_model) else {}

    n_eval = n_oracle_ok = n_tie_ok = n_model_thm_ok = n_full = n_full_ok = 0
    by_stream, by_kind, distinct = {}, {}, set()
    samples, fail_groups = [], {}
    model_contradicts = []
    for cid, tree, given in items:
        r = res.get(cid)
        if not r or not r["real"]:
            continue
        st = streams[cid]
        by_stream[st] = by_stream.get(st, 0) + 1
        by_kind[kinds[cid]] = by_kind.get(kinds[cid], 0) + 1
        t = sx_parse(tree)
        if size(t) >= 3:
            distinct.add(tree if given is None else tree + "|" + given)
        # the model-level statement of the theorem on this instance (must hold: parse_print is proved)
        if given is None and r["wf"]:
            if r["model"] == r["expect"]:
                n_model_thm_ok += 1
            else:
                model_contradicts.append((cid, tree, r["model"]))
        if given is None and r["wf"] != wf(t):
            ctx.broken_ties.append(("wf of the model ≠ wf of tools/props/c11.py", f"{cid} {tree}"))
        for variant, real in r["real"].items():
            n_eval += 1
            # (ii) tie: the model's parse of the same tokens equals the real parse (errors: both reject)
            real_c = "ERR" if real.startswith("ERR:") else real
            if real_c == r["model"]:
                n_tie_ok += 1
            else:
                ctx.broken_ties.append(("model≠implementation (parse+lower)",
                                        f"{cid} [{variant}] text=`{r['text']}` real={real} model={r['model']}"))
            # (i) property oracle on the implementation's own output
            if real == r["expect"]:
                n_oracle_ok += 1
            elif wf(t):
                fail_groups.setdefault(cid, []).append((variant, real))
        # (iii) minimal parentheses vs. parentheses around every operand: the real parser + lowering must
        # read both spellings as the same tree, and accept or reject both (independent of the model)
        for variant, realf in r["full"].items():
            n_eval += 1
            n_full += 1
            rc = r["real"].get(variant)
            if realf == rc and (realf == r["expect"] or not wf(t)):
                n_full_ok += 1
            elif wf(t) or realf.startswith(("ERR:", "PANIC:")) != (rc or "").startswith(("ERR:", "PANIC:")):
                fail_groups.setdefault(cid, []).append((variant + " vs full parentheses `" + r.get("full_text", "") + "`",
                                                        f"{rc}  ≠(full)  {realf}"))
        want = {"triples": kinds[cid] == "prefix" and "(c " in tree, "random": size(t) >= 9, "parens": size(t) >= 5,
                "pairs": kinds[cid] == "call1" and tree.startswith("(c (b")}.get(st, False)
        if want and not any(s_["stream"] == st for s_ in samples):
            samples.append({"id": cid, "stream": st, "tree": tree, "text": r["text"],
                            "real_parse": r["real"].get("canon"), "model_parse": r["model"],
                            "trivia_source": r["src"].get("trivia", "")[:200]})
    if len(ctx.broken_ties) > 12:
        extra = len(ctx.broken_ties) - 12
        ctx.broken_ties = ctx.broken_ties[:12] + [("…", f"{extra} more correspondence differences")]
    for cid, tree, got in model_contradicts[:5]:
        ctx.broken_ties.append(("model contradicts parse_print", f"{cid} tree={tree} model parse={got}"))

    # classify the oracle failures: shrink a few per coarse class, sign by the skeleton of the shrunk tree
    coarse = {}
    for cid, vs in fail_groups.items():
        r = res[cid]
        outcome = "rejected" if all(v.startswith(("ERR:", "PANIC:")) for _, v in vs) else "wrong-tree"
        key = (streams[cid] == "parens", outcome, skeleton(sx_parse(r["tree"])) if size(sx_parse(r["tree"])) <= 4 else None)
        coarse.setdefault(key, []).append(cid)
    shrunk_cache = {}
    n_shrinks = 0
    for key, cids in sorted(coarse.items(), key=lambda kv: (kv[0][2] is None, str(kv[0]))):
        cids.sort(key=lambda c: size(sx_parse(res[c]["tree"])))
        reps = cids[:1] if key[2] is not None else cids[:40]
        for cid in cids:
            r = res[cid]
            variant, real = fail_groups[cid][0]
            outcome = "rejected" if real.startswith(("ERR:", "PANIC:")) else "wrong-tree"
            if cid in reps and n_shrinks < 120 and streams[cid] != "parens":
                n_shrinks += 1
                small = shrink(ctx, r["tree"], streams[cid])
                shrunk_cache[cid] = small
            small = shrunk_cache.get(cid) or shrunk_cache.get(reps[0]) or sx_parse(r["tree"])
            sig = {"oracle": "parse-print" if streams[cid] != "parens" else "redundant-parens",
                   "outcome": outcome, "shape": skeleton(small)}
            what = ("printing a tree with only the necessary parentheses and parsing it back does not give the tree back"
                    if streams[cid] != "parens" else
                    "redundant parentheses change the tree that is read")
            ctx.report(sig, what, {"id": cid, "tree": r["tree"], "given_text": r["text"] if streams[cid] == "parens" else None,
                                   "printed": subst_text(r["text"]), "full_parentheses": r.get("full_text"),
                                   "expected_tree": r["expect"], "variant": variant, "observed_parse": real,
                                   "model_parse": r["model"], "minimal_tree": sx_text(small),
                                   "source": r["src"].get(variant, "")})
    # ---------------------------------------------------------------- host positions
    host_cov = {}
    host_texts = []
    if ctx.replay:
        for i, c in enumerate(rp.get("cases", [])):
            if "host" in c and "text" in c:
                host_texts.append((f"h{i}", c["text"], c.get("tree") or None, "replay"))
    else:
        quota = {"single": 10**6, "pairs": 10**6, "lit-operand": 10**6, "lit-receiver": 10**6,
                 "random": 2500 if ctx.tier == "thorough" else 250, "parens": 1500 if ctx.tier == "thorough" else 150}
        taken = {}
        for cid, tree, given in items:
            r = res.get(cid)
            if not r or not r["real"]:
                continue
            st = streams[cid]
            if st in ("atoms", "chains"):
                name, chain, pre, ctxk = atom_info[cid]
                # every prefix × every chain of length 1..4 on the identifier, every primary expression under `-` with
                # chains of length ≤ 2 (thorough: all of them)
                want = ctxk == "alone" and ((name == "$id" and chain.count("/") <= 3) or (pre == "n" and chain.count("/") <= 1)
                                            or ctx.tier == "thorough")
            else:
                want = taken.get(st, 0) < quota.get(st, 0)
            if want:
                taken[st] = taken.get(st, 0) + 1
                host_texts.append((cid, subst_text(r["text"]), tree, st))
    if host_texts:
        host_cov = host_positions(ctx, host_texts)
        n_eval += host_cov.get("readings", 0)
    ctx.violations.sort(key=lambda v: (len(v[2].get("tree", "")), len(v[2].get("text", ""))))

    # ---------------------------------------------------------------- literals
    n_lit = n_lit_ok = n_lit_tie = 0
    lit_classes = {}
    lit_samples = []
    replay_spellings = None
    if ctx.replay:
        import json
        replay_spellings = {c["spelling"] for c in json.load(open(ctx.replay)).get("cases", [])
                            if "spelling" in c and "expected_code_points" not in c}
    if not ctx.replay or replay_spellings:
        ok, out = ctx.gv("c11", ["lits"])
        lrows = [r for r in (vlib.read_tsv(os.path.join(ctx.run_dir, "c11.lits.tsv")) if ok else []) if len(r) >= 6 and r[1] == "LIT"]
        if replay_spellings is not None:
            lrows = [r for r in lrows if vlib.unesc(r[3]) in replay_spellings]
        mlines = []
        for r in lrows:
            body = r[6] if len(r) > 6 else ""
            if r[2].startswith("str-"):
                mlines.append(f"{r[0]}\tstr\t{body}")
            elif r[2].startswith("mstr-"):
                mlines.append(f"{r[0]}\tmstr\t{body}")
        lm = ctx.model("c11", mlines) if (mlines and have_model) else {}
        for r in lrows:
            cid, cls, spelling, expected, observed = r[0], r[2], vlib.unesc(r[3]), r[4], vlib.unesc(r[5])
            n_lit += 1
            n_eval += 1
            lit_classes[cls] = lit_classes.get(cls, 0) + 1
            if cls.startswith(("str-", "mstr-")):
                distinct.add("lit:" + spelling)
                mv = (lm.get(cid) or ["?"])[0]
                model_val = "String:" + mv if mv not in ("REJECT", "?") else mv
                obs_c = "REJECT" if observed.startswith("ERR:lower") else observed
                if model_val == obs_c:
                    n_lit_tie += 1
                else:
                    ctx.broken_ties.append(("model≠implementation (string literal)",
                                            f"{cid} {spelling!r}: real={observed} model={model_val}"))
            if observed == expected:
                n_lit_ok += 1
            else:
                base = cls.split("-")[0]
                sig = {"oracle": "literal-value", "class": base if base != "str" else ("str-escape" if "esc" in cls or "mixed" in cls else "str-plain"),
                       "outcome": "rejected" if observed.startswith(("ERR:", "PANIC:")) else "wrong-value"}
                ctx.report(sig, "a literal does not denote the value written",
                           {"id": cid, "class": cls, "spelling": spelling, "expected_core_prim": expected,
                            "observed_core_prim": observed,
                            "source": f"fn main() -> unit {{\n    let x = {spelling};\n    ()\n}}\n"})
            if len(lit_samples) < 3 and cls in ("str-esc-n", "int-u64", "float-f32"):
                if not any(s["class"] == cls for s in lit_samples):
                    lit_samples.append({"id": cid, "class": cls, "spelling": spelling, "expected": expected, "observed": observed})

    # ---------------------------------------------------------------- \u escapes over the whole code space
    usw = {}
    if ctx.replay:
        import json
        rc = [c for c in json.load(open(ctx.replay)).get("cases", []) if "expected_code_points" in c]
        if rc:
            usw = u_sweep(ctx, have_model, rc)
            n_eval += usw["programs"]
    else:
        usw = u_sweep(ctx, have_model)
        n_eval += usw["programs"]

    # ---------------------------------------------------------------- corpus goldens (information)
    gold = {}
    if not ctx.replay:
        ok, out = ctx.gv("c11", ["goldens"])
        m = re.search(r"#GOLDENS\tcompared=(\d+)\tdiffering=(\d+)", out or "")
        if m:
            gold = {"compared": int(m.group(1)), "differing": int(m.group(2)),
                    "differing_files": re.findall(r"^(\S+)\tGOLDEN-\S+\t(\S+)", out, flags=re.M)[:20]}
            if gold["differing"]:
                ctx.notes.append(f"{gold['differing']} golden stage dumps of the corpus differ from what the tree under test produces")

    # ---------------------------------------------------------------- names: lowering commutes with renaming a local binder
    names_cov = {}
    if not ctx.replay:
        ok, out = ctx.gv("c11", ["names"])
        nrows = [r for r in (vlib.read_tsv(os.path.join(ctx.run_dir, "c11.names.tsv")) if ok else []) if len(r) >= 8 and r[1] == "NAMES"]
        if not nrows:
            ctx.broken_ties.append(("gv c11 names", (out or "")[-400:]))
        names_cov = {"programs": len(nrows), "lowering_commutes_with_renaming": sum(r[2] == "ok" for r in nrows),
                     "functions_compared": sum(int(r[3]) for r in nrows if r[2] == "ok"),
                     "spellings": sorted({r[4] for r in nrows}),
                     "cells(use-position/binder-kind)": len({c for r in nrows for c in r[6].split()}),
                     "rule": "harness/src/namecat.rs: a local binder of every kind spelled like a variant / struct / enum type / function / builtin "
                             "(declared in the same file or another file of the package), used in every use position; the functions lowered by the "
                             "real parse_ast_file, with that spelling replaced by a fresh name of the same length, must be the functions lowered "
                             "from the twin program written with the fresh name"}
        for r in nrows:
            if r[2] != "ok":
                ctx.report({"oracle": "lowering-alpha", "kind": "lowered-differently-under-a-package-level-spelling"},
                           "CST->AST lowering of a function depends on how a local binder is spelled: renaming the binder (and the uses it binds) "
                           "to a fresh name of the same length changes more of the lowered function than that name",
                           {"id": r[0], "binder_spelling": r[4], "fresh_spelling_in_the_twin": r[5], "cells(use-position/binder-kind)": r[6],
                            "detail": vlib.unesc(r[3])[:1500], "src": vlib.unesc(r[7])})

    # ---------------------------------------------------------------- CST→AST lowering: Model/Lower.lean on the real trees
    lower_cov = {}
    if not ctx.replay:
        # the canonical rendering of every operator tree of this run goes through the lowering tie as well
        ltexts = [(f"c11:{cid}", "c11-trees", r["src"]["canon"]) for cid, r in res.items() if r["src"].get("canon")]
        lower_cov = lowertie.run(ctx, ["corpus", "names", "gen", "mutants", "crlf", "chains"], ltexts)
        n_eval += lower_cov.get("lower_texts", 0)

    n_str = sum(v for c, v in lit_classes.items() if c.startswith(('str-', 'mstr-')))
    cov0 = cov
    cov = {
        "evaluations": n_eval, "distinct_nontrivial": len(distinct),
        "rule": "one evaluation = one rendering (canonical blanks / random trivia / glued) of one tree parsed by the real "
                "parse_ast_file, or one literal compiled by the whole pipeline; non-trivial = tree with at least 3 nodes "
                "(distinct by tree, for the redundant-parentheses stream by tree+text) or a string literal (distinct by spelling)",
        "samples": samples + lit_samples,
        "pratt_vs_grammar_model(agrees)": dict(PG),
        "streams": by_stream, "root_kinds": by_kind,
        "oracle_tree_roundtrips_ok": n_oracle_ok, "tie_model_equals_real": n_tie_ok,
        "oracle_min_vs_full_parentheses": n_full, "oracle_min_vs_full_parentheses_ok": n_full_ok,
        "primary_expression_atoms": {n: a["spelling"] for n, a in ATOMS.items()},
        "host_positions": host_cov,
        "model_instances_of_parse_print": n_model_thm_ok,
        "literals": n_lit, "literal_values_ok": n_lit_ok, "literal_tie_ok": n_lit_tie, "literal_classes": lit_classes,
        "tight_rendering": getattr(rnd, "tight_note", ""),
        "u_escape_sweep": usw,
        "corpus_goldens": gold,
        "names(lowering commutes with renaming a local binder)": names_cov,
        "lowering(Model/Lower.lean on the real CST)": lower_cov,
        "impl_oracle_failures": len(ctx.violations) + sum(h["count"] for h in ctx.known_hits),
        "model_diffs": (n_eval - lower_cov.get("lower_texts", 0) - n_full - n_lit - usw.get("programs", 0) - host_cov.get("readings", 0) - n_tie_ok) + (n_str - n_lit_tie)
                       + (lower_cov.get("lower_texts", 0) - lower_cov.get("lower_model_equals_real", 0))
                       + (usw.get("tie_total", 0) - usw.get("tie_ok", 0)),
    }
    cov.update(cov0)
    ctx.assumptions += [
        "the lexer is not modelled here (C12): the model prints tokens, the harness joins them with blanks/trivia, and glues them "
        "only where the real lexer still yields the same token sequence",
        "atoms of the operator trees are lower-case identifiers that are not enum constructors and unsuffixed integer literals; "
        "other atoms (strings, tuples, blocks, closures, struct literals) are not generated by this check",
        "float literals are generated as dyadic rationals so that the denoted value is known without a decimal-to-binary conversion",
    ]
    tb = ["Lean 4 kernel", "axioms: " + ",".join(ctx.proof["axioms"] or ["none"]),
          "tools/extract.py (binding-power tables, shape-asserting regexes)",
          "harness/src/c11.rs (ast::Expr → tree dump, trivia insertion, Core EPrim extraction)",
          "tools/props/c11.py (comparison, shrinking)"]
    return ctx.finish("proof", cov, tb, "lake build GomlVerif.Props.C11 && lake env lean Axioms.lean (#print axioms)")
