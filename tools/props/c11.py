"""C11 — source text is read as written: precedence, associativity, literal fidelity.

proof (Props/C11.lean over Model/Pratt.lean, Model/StrLit.lean and the regenerated Gen/BindingPower.lean)
+ correspondence: trees → model printMin → real parse_ast_file → dumped ast::Expr, compared with
  (i) the original tree (property oracle, independent of the model's parser) and (ii) the model's parse (tie);
  literal spellings → whole pipeline → the EPrim that reaches Core, compared with the denoted value
  (oracle) and with the model's decoding (tie)."""
import os, re
import vlib


# ------------------------------------------------------------------ S-expressions (trees)
def sx_parse(s):
    toks = re.findall(r'\(|\)|"(?:\\.|[^"\\])*"|[^\s()]+', s)
    pos = 0
    def rd():
        nonlocal pos
        t = toks[pos]; pos += 1
        if t == "(":
            xs = []
            while toks[pos] != ")":
                xs.append(rd())
            pos += 1
            return xs
        return t
    return rd()

def sx_text(t):
    return t if isinstance(t, str) else "(" + " ".join(sx_text(x) for x in t) + ")"

def children(t):
    k = t[0]
    if k == "u": return [t[2]]
    if k == "b": return [t[2], t[3]]
    if k == "c": return t[1:]
    if k in ("f", "p"): return [t[1]]
    return []

def with_children(t, cs):
    k = t[0]
    if k == "u": return ["u", t[1], cs[0]]
    if k == "b": return ["b", t[1], cs[0], cs[1]]
    if k == "c": return ["c"] + cs
    if k in ("f", "p"): return [k, cs[0], t[2]]
    return t

def size(t):
    return 1 + sum(size(c) for c in children(t))

def kind(t):
    k = t[0]
    return {"v": "var", "i": "lit", "u": "prefix", "b": "binary", "f": "field", "p": "proj"}.get(k) or \
        ("call%d" % (len(t) - 2) if len(t) - 2 < 2 else "call2+")

def skeleton(t):
    cs = children(t)
    return kind(t) + ("(" + ",".join(skeleton(c) for c in cs) + ")" if cs else "")

def is_lit(t): return t[0] == "i"

def wf(t):
    k = t[0]
    if k in ("c", "f", "p") and is_lit(t[1]):
        return False
    return all(wf(c) for c in children(t))

def subtrees(t):
    yield t
    for c in children(t):
        yield from subtrees(c)


class Round:
    """one batch: trees → model print (+ model parse) → real parse of three renderings"""
    def __init__(self, ctx, tag):
        self.ctx, self.tag = ctx, tag

    def run(self, items):
        """items: list of (id, tree-sexp-text, given_text|None) → {id: dict}"""
        ctx = self.ctx
        lines = []
        for cid, tree, given in items:
            lines.append(f"{cid}\tprint\t{tree}" if given is None else f"{cid}\tparse\t{given}")
        model = ctx.model("c11", lines) if lines else {}
        res, texts = {}, []
        for cid, tree, given in items:
            m = model.get(cid)
            if not m or (given is None and len(m) < 3) or (given is not None and len(m) < 1):
                ctx.broken_ties.append(("model driver c11", f"{cid}: {m}"))
                continue
            if given is None:
                res[cid] = {"tree": tree, "text": m[0], "model": m[1], "wf": m[2] == "wf=true", "real": {}, "src": {}}
            else:
                res[cid] = {"tree": tree, "text": given, "model": m[0], "wf": True, "real": {}, "src": {}}
            texts.append(f"{cid}\t{res[cid]['text']}")
        f = os.path.join(ctx.run_dir, f"c11.texts.{self.tag}.tsv")
        open(f, "w").write("\n".join(texts) + "\n")
        ok, out = ctx.gv("c11", ["parse", "--file", f])
        if ok:
            for r in vlib.read_tsv(os.path.join(ctx.run_dir, "c11.parsed.tsv")):
                if len(r) >= 5 and r[1] == "PARSED" and r[0] in res:
                    res[r[0]]["real"][r[2]] = r[3]
                    res[r[0]]["src"][r[2]] = vlib.unesc(r[4])
                elif r[0] == "#TIGHT":
                    self.tight_note = r[1]
        return res


def shrink(ctx, tree, stream):
    """smallest failing relative of `tree`: a failing subtree, then operands replaced by variables"""
    rnd = Round(ctx, "shrink")
    fails = lambda r: any(v != r["tree"] for v in r["real"].values())
    cur = sx_parse(tree)
    for _ in range(6):
        cands, seen = [], set()
        for s in subtrees(cur):
            if s is not cur:
                cands.append(s)
        def repl(t):
            # replace one operand subtree by a fresh variable
            cs = children(t)
            for i, c in enumerate(cs):
                if c[0] not in ("v",):
                    yield with_children(t, cs[:i] + [["v", "q%d" % i]] + cs[i + 1:])
                for sub in repl(c):
                    yield with_children(t, cs[:i] + [sub] + cs[i + 1:])
        cands += list(repl(cur))
        items = []
        for i, c in enumerate(cands):
            txt = sx_text(c)
            if txt in seen or not wf(c) or size(c) >= size(cur):
                continue
            seen.add(txt)
            items.append((f"s{i}", txt, None))
        if not items:
            break
        res = rnd.run(items)
        failing = [r for r in res.values() if r["real"] and fails(r)]
        if not failing:
            break
        best = min(failing, key=lambda r: (size(sx_parse(r["tree"])), r["tree"]))
        cur = sx_parse(best["tree"])
    return cur


def run(ctx):
    ctx.extract()
    ctx.build_lean(["GomlVerif.Props.C11"])
    if not ctx.build_harness():
        return ctx.finish("proof", {"evaluations": 0, "distinct_nontrivial": 0}, [], "lake build")
    have_model = os.path.exists(vlib.MODEL)
    cov = {}

    # ---------------------------------------------------------------- trees
    if ctx.replay:
        import json
        rp = json.load(open(ctx.replay))
        items = []
        for i, c in enumerate(rp.get("cases", [])):
            if "tree" in c:
                items.append((f"r{i}", c["tree"], c.get("given_text")))
        streams = {cid: "replay" for cid, _, _ in items}
        kinds = {cid: "replay" for cid, _, _ in items}
    else:
        ok, out = ctx.gv("c11", ["gen"])
        rows = vlib.read_tsv(os.path.join(ctx.run_dir, "c11.trees.tsv")) if ok else []
        items, streams, kinds = [], {}, {}
        for r in rows:
            if r[0] == "#SIZES":
                cov["tree_sizes(nodes:count)"] = r[1]
            if len(r) >= 5 and r[1] == "TREE":
                items.append((r[0], r[4], r[5] if len(r) > 5 else None))
                streams[r[0]] = r[2]
                kinds[r[0]] = r[3]
    rnd = Round(ctx, "main")
    res = rnd.run(items) if (items and have_model) else {}

    n_eval = n_oracle_ok = n_tie_ok = n_model_thm_ok = 0
    by_stream, by_kind, distinct = {}, {}, set()
    samples, fail_groups = [], {}
    model_contradicts = []
    for cid, tree, given in items:
        r = res.get(cid)
        if not r or not r["real"]:
            continue
        st = streams[cid]
        by_stream[st] = by_stream.get(st, 0) + 1
        by_kind[kinds[cid]] = by_kind.get(kinds[cid], 0) + 1
        t = sx_parse(tree)
        if size(t) >= 3:
            distinct.add(tree if given is None else tree + "|" + given)
        # the model-level statement of the theorem on this instance (must hold: parse_print is proved)
        if given is None and r["wf"]:
            if r["model"] == tree:
                n_model_thm_ok += 1
            else:
                model_contradicts.append((cid, tree, r["model"]))
        for variant, real in r["real"].items():
            n_eval += 1
            # (ii) tie: the model's parse of the same tokens equals the real parse (errors: both reject)
            real_c = "ERR" if real.startswith("ERR:") else real
            if real_c == r["model"]:
                n_tie_ok += 1
            else:
                ctx.broken_ties.append(("model≠implementation (parse+lower)",
                                        f"{cid} [{variant}] text=`{r['text']}` real={real} model={r['model']}"))
            # (i) property oracle on the implementation's own output
            if real == tree:
                n_oracle_ok += 1
            elif r["wf"]:
                fail_groups.setdefault(cid, []).append((variant, real))
        want = {"triples": kinds[cid] == "prefix" and "(c " in tree, "random": size(t) >= 9, "parens": size(t) >= 5,
                "pairs": kinds[cid] == "call1" and tree.startswith("(c (b")}.get(st, False)
        if want and not any(s_["stream"] == st for s_ in samples):
            samples.append({"id": cid, "stream": st, "tree": tree, "text": r["text"],
                            "real_parse": r["real"].get("canon"), "model_parse": r["model"],
                            "trivia_source": r["src"].get("trivia", "")[:200]})
    if len(ctx.broken_ties) > 12:
        extra = len(ctx.broken_ties) - 12
        ctx.broken_ties = ctx.broken_ties[:12] + [("…", f"{extra} more correspondence differences")]
    for cid, tree, got in model_contradicts[:5]:
        ctx.broken_ties.append(("model contradicts parse_print", f"{cid} tree={tree} model parse={got}"))

    # classify the oracle failures: shrink a few per coarse class, sign by the skeleton of the shrunk tree
    coarse = {}
    for cid, vs in fail_groups.items():
        r = res[cid]
        outcome = "rejected" if all(v.startswith(("ERR:", "PANIC:")) for _, v in vs) else "wrong-tree"
        key = (streams[cid] == "parens", outcome, skeleton(sx_parse(r["tree"])) if size(sx_parse(r["tree"])) <= 4 else None)
        coarse.setdefault(key, []).append(cid)
    shrunk_cache = {}
    n_shrinks = 0
    for key, cids in sorted(coarse.items(), key=lambda kv: (kv[0][2] is None, str(kv[0]))):
        cids.sort(key=lambda c: size(sx_parse(res[c]["tree"])))
        reps = cids[:1] if key[2] is not None else cids[:40]
        for cid in cids:
            r = res[cid]
            variant, real = fail_groups[cid][0]
            outcome = "rejected" if real.startswith(("ERR:", "PANIC:")) else "wrong-tree"
            if cid in reps and n_shrinks < 120 and streams[cid] != "parens":
                n_shrinks += 1
                small = shrink(ctx, r["tree"], streams[cid])
                shrunk_cache[cid] = small
            small = shrunk_cache.get(cid) or shrunk_cache.get(reps[0]) or sx_parse(r["tree"])
            sig = {"oracle": "parse-print" if streams[cid] != "parens" else "redundant-parens",
                   "outcome": outcome, "shape": skeleton(small)}
            what = ("printing a tree with only the necessary parentheses and parsing it back does not give the tree back"
                    if streams[cid] != "parens" else
                    "redundant parentheses change the tree that is read")
            ctx.report(sig, what, {"id": cid, "tree": r["tree"], "given_text": r["text"] if streams[cid] == "parens" else None,
                                   "printed": r["text"], "variant": variant, "observed_parse": real,
                                   "model_parse": r["model"], "minimal_tree": sx_text(small),
                                   "source": r["src"].get(variant, "")})
    ctx.violations.sort(key=lambda v: len(v[2].get("tree", "")))

    # ---------------------------------------------------------------- literals
    n_lit = n_lit_ok = n_lit_tie = 0
    lit_classes = {}
    lit_samples = []
    replay_spellings = None
    if ctx.replay:
        import json
        replay_spellings = {c["spelling"] for c in json.load(open(ctx.replay)).get("cases", []) if "spelling" in c}
    if not ctx.replay or replay_spellings:
        ok, out = ctx.gv("c11", ["lits"])
        lrows = [r for r in (vlib.read_tsv(os.path.join(ctx.run_dir, "c11.lits.tsv")) if ok else []) if len(r) >= 6 and r[1] == "LIT"]
        if replay_spellings is not None:
            lrows = [r for r in lrows if vlib.unesc(r[3]) in replay_spellings]
        mlines = []
        for r in lrows:
            body = r[6] if len(r) > 6 else ""
            if r[2].startswith("str-"):
                mlines.append(f"{r[0]}\tstr\t{body}")
            elif r[2].startswith("mstr-"):
                mlines.append(f"{r[0]}\tmstr\t{body}")
        lm = ctx.model("c11", mlines) if (mlines and have_model) else {}
        for r in lrows:
            cid, cls, spelling, expected, observed = r[0], r[2], vlib.unesc(r[3]), r[4], vlib.unesc(r[5])
            n_lit += 1
            n_eval += 1
            lit_classes[cls] = lit_classes.get(cls, 0) + 1
            if cls.startswith(("str-", "mstr-")):
                distinct.add("lit:" + spelling)
                mv = (lm.get(cid) or ["?"])[0]
                model_val = "String:" + mv if mv not in ("REJECT", "?") else mv
                obs_c = "REJECT" if observed.startswith("ERR:lower") else observed
                if model_val == obs_c:
                    n_lit_tie += 1
                else:
                    ctx.broken_ties.append(("model≠implementation (string literal)",
                                            f"{cid} {spelling!r}: real={observed} model={model_val}"))
            if observed == expected:
                n_lit_ok += 1
            else:
                base = cls.split("-")[0]
                sig = {"oracle": "literal-value", "class": base if base != "str" else ("str-escape" if "esc" in cls or "mixed" in cls else "str-plain"),
                       "outcome": "rejected" if observed.startswith(("ERR:", "PANIC:")) else "wrong-value"}
                ctx.report(sig, "a literal does not denote the value written",
                           {"id": cid, "class": cls, "spelling": spelling, "expected_core_prim": expected,
                            "observed_core_prim": observed,
                            "source": f"fn main() -> unit {{\n    let x = {spelling};\n    ()\n}}\n"})
            if len(lit_samples) < 3 and cls in ("str-esc-n", "int-u64", "float-f32"):
                if not any(s["class"] == cls for s in lit_samples):
                    lit_samples.append({"id": cid, "class": cls, "spelling": spelling, "expected": expected, "observed": observed})

    # ---------------------------------------------------------------- corpus goldens (information)
    gold = {}
    if not ctx.replay:
        ok, out = ctx.gv("c11", ["goldens"])
        m = re.search(r"#GOLDENS\tcompared=(\d+)\tdiffering=(\d+)", out or "")
        if m:
            gold = {"compared": int(m.group(1)), "differing": int(m.group(2)),
                    "differing_files": re.findall(r"^(\S+)\tGOLDEN-\S+\t(\S+)", out, flags=re.M)[:20]}
            if gold["differing"]:
                ctx.notes.append(f"{gold['differing']} golden stage dumps of the corpus differ from what the tree under test produces")

    n_str = sum(v for c, v in lit_classes.items() if c.startswith(('str-', 'mstr-')))
    cov0 = cov
    cov = {
        "evaluations": n_eval, "distinct_nontrivial": len(distinct),
        "rule": "one evaluation = one rendering (canonical blanks / random trivia / glued) of one tree parsed by the real "
                "parse_ast_file, or one literal compiled by the whole pipeline; non-trivial = tree with at least 3 nodes "
                "(distinct by tree, for the redundant-parentheses stream by tree+text) or a string literal (distinct by spelling)",
        "samples": samples + lit_samples,
        "streams": by_stream, "root_kinds": by_kind,
        "oracle_tree_roundtrips_ok": n_oracle_ok, "tie_model_equals_real": n_tie_ok,
        "model_instances_of_parse_print": n_model_thm_ok,
        "literals": n_lit, "literal_values_ok": n_lit_ok, "literal_tie_ok": n_lit_tie, "literal_classes": lit_classes,
        "tight_rendering": getattr(rnd, "tight_note", ""),
        "corpus_goldens": gold,
        "impl_oracle_failures": len(ctx.violations) + sum(h["count"] for h in ctx.known_hits),
        "model_diffs": (n_eval - n_lit - n_tie_ok) + (n_str - n_lit_tie),
    }
    cov.update(cov0)
    ctx.assumptions += [
        "the lexer is not modelled here (C12): the model prints tokens, the harness joins them with blanks/trivia, and glues them "
        "only where the real lexer still yields the same token sequence",
        "atoms of the operator trees are lower-case identifiers that are not enum constructors and unsuffixed integer literals; "
        "other atoms (strings, tuples, blocks, closures, struct literals) are not generated by this check",
        "float literals are generated as dyadic rationals so that the denoted value is known without a decimal-to-binary conversion",
    ]
    tb = ["Lean 4 kernel", "axioms: " + ",".join(ctx.proof["axioms"] or ["none"]),
          "tools/extract.py (binding-power tables, shape-asserting regexes)",
          "harness/src/c11.rs (ast::Expr → tree dump, trivia insertion, Core EPrim extraction)",
          "tools/props/c11.py (comparison, shrinking)"]
    return ctx.finish("proof", cov, tb, "lake build GomlVerif.Props.C11 && lake env lean Axioms.lean (#print axioms)")
