"""C12 — the syntax tree is lossless and positions are exact
(proof over Model/Lex + Model/Tree, tables regenerated from lexer/src/lib.rs, correspondence with
lexer::lex and Parser::build_tree, direct oracles on the implementation's own outputs)."""
import json, os, re, subprocess
from concurrent.futures import ThreadPoolExecutor
import vlib

WHAT = {
    "lex-panic": "lexer::lex panics",
    "lex-gap-or-overlap": "token ranges do not tile the text (gap or overlap)",
    "lex-empty-token": "the lexer produced an empty token",
    "lex-not-char-boundary": "a token ends inside a UTF-8 scalar",
    "lex-text-mismatch": "a token's text is not the input slice of its range",
    "lex-eof-token": "the lexer produced an Eof token",
    "lex-short": "token ranges stop before the end of the text",
    "parse-panic": "the parser panics (no syntax tree for this text)",
    "tree-text-differs": "the text of the syntax tree differs from the input (bytes lost, duplicated or reordered)",
    "tree-leaves-differ-from-tokens": "the leaves of the syntax tree are not the lexer's tokens (kind name, text, range) in order",
    "root-range": "the root node does not span the whole text",
    "node-range-outside-text": "a syntax node/token has a range outside the text or off a char boundary",
    "diag-range-outside-text": "a parser diagnostic has a range outside the text",
    "parse-twice-differs": "parsing the same text twice gives different results",
    "parse-entry-differs": "parser::parse differs from Parser::new + file::file + build_tree",
    "hang": "lexing/parsing does not terminate",
    "deep-nesting-crash": "the recursive-descent parser overflows the 8 MiB main-thread stack on deeply nested input: "
                          "the process aborts, no syntax tree and no diagnostic is produced",
    "format-errors-panic": "ParseResult::format_errors panics",
    "format-errors-count": "format_errors drops or invents diagnostics",
    "diag-line-col-wrong": "the line:column printed for a parser diagnostic is not the position of its range start",
    "root-not-a-file": "the root of the syntax tree is not a FILE node",
    "lower-diag-range-outside-text": "a diagnostic of CST->AST lowering has a range outside the text or off a char boundary",
}


def run_model_parallel(ctx, lines, procs=16):
    """pipe `lines` through several gomlmodel processes; returns {id: fields}"""
    if not lines:
        return {}
    n = max(1, min(procs, len(lines) // 2000 + 1))
    chunks = [lines[i::n] for i in range(n)]

    def one(chunk):
        p = vlib.srun([vlib.MODEL, "c12"], input="".join(chunk), stdout=subprocess.PIPE,
                           stderr=subprocess.PIPE, text=True, timeout=3000)
        return p.returncode, p.stdout, p.stderr

    res = {}
    with ThreadPoolExecutor(max_workers=n) as ex:
        for rc, out, err in ex.map(one, chunks):
            if rc != 0:
                ctx.broken_ties.append(("model driver c12", err[-1500:]))
            for l in out.split("\n"):
                if l:
                    f = l.split("\t")
                    res[f[0]] = f[1:]
    return res


def unhex(h):
    return bytes.fromhex(h).decode("utf-8", errors="replace")


def run(ctx):
    ctx.extract()
    ctx.build_lean(["GomlVerif.Props.C12"])
    if not ctx.build_harness():
        return ctx.finish("proof", {"evaluations": 0, "distinct_nontrivial": 0}, [], "lake build")
    extra = []
    if ctx.replay:
        rp = json.load(open(ctx.replay))
        hx = next((c.get("input_hex") for c in rp.get("cases", []) if c.get("input_hex") is not None), None)
        dp = next((c.get("deep_input") for c in rp.get("cases", []) if c.get("deep_input")), None)
        if dp:
            extra = ["--only-deep", dp]
        elif hx is not None:
            extra = ["--hex", hx]
    ok, out = ctx.gv("c12", extra)
    rd = ctx.run_dir
    case_lines = open(os.path.join(rd, "c12.cases.tsv"), encoding="utf-8").readlines() if ok else []
    real = {}
    if ok:
        for l in open(os.path.join(rd, "c12.real.tsv"), encoding="utf-8"):
            f = l.rstrip("\n").split("\t")
            real[f[0]] = f[1:]
    stats = dict(l.rstrip("\n").split("\t") for l in open(os.path.join(rd, "c12.stats.tsv"))) if ok else {}
    oracle_rows = vlib.read_tsv(os.path.join(rd, "c12.oracle.tsv")) if ok else []

    # ---- (1) property oracles on the implementation's own outputs
    for r in oracle_rows:
        cid, stream, kind, detail, hx = r[0], r[1], r[2], vlib.unesc(r[3]), (r[4] if len(r) > 4 else "")
        if hx.startswith("deep:"):
            payload = {"id": cid, "stream": stream, "deep_input": hx[5:], "detail": detail,
                       "regenerate": f"gv c12 --tier {ctx.tier} --deep {hx[5:]}   (child process, default main-thread stack)"}
        else:
            payload = {"id": cid, "stream": stream, "input_hex": hx, "input": unhex(hx)[:400], "detail": detail}
        ctx.report({"oracle": "direct", "kind": kind}, WHAT.get(kind, kind), payload)
    ctx.violations.sort(key=lambda v: (0, len(v[2]["input_hex"])) if "input_hex" in v[2] else (1, 0))

    # ---- (2) model vs implementation
    model = run_model_parallel(ctx, case_lines) if (case_lines and os.path.exists(vlib.MODEL)) else {}
    n_lex_eq = n_tree = n_tree_eq = n_hyp = n_lossless = 0
    n_gram = n_gram_eq = 0
    gram_trace = 0
    gram_diffs = []
    gram_by_stream = {}
    distinct = set()
    samples = []
    lex_diffs, tree_diffs = [], []
    for l in case_lines:
        f = l.rstrip("\n").split("\t")
        cid, mode, hx, toks = f[0], f[1], f[2], f[3]
        m = model.get(cid)
        if not m:
            ctx.broken_ties.append(("model driver", f"{cid}: no answer"))
            continue
        if toks.count(",") >= 1:
            distinct.add(hx)
        if m[0] == "EQ":
            n_lex_eq += 1
        else:
            lex_diffs.append({"id": cid, "input_hex": hx, "input": unhex(hx)[:200], "real_tokens": toks[:300], "model": m[0]})
        if mode == "T":
            n_tree += 1
            r = real.get(cid)
            if r is None or len(m) < 4:
                ctx.broken_ties.append(("tree tie", f"{cid}: missing real tree or model answer {m[:1]}"))
                continue
            n_err = int(r[2])
            rdiag = r[1].split(";") if r[1] else []
            mdiag = m[2].split(";") if m[2] else []
            tail = rdiag[len(rdiag) - n_err:] if n_err else []
            flags = dict(x.split("=") for x in m[3].split() if "=" in x)
            hyp = flags.get("balanced") == "true" and int(flags.get("advances", 0)) >= int(flags.get("nontrivia", 1))
            n_hyp += hyp
            n_lossless += flags.get("lossless") == "true"
            if m[1] == r[0] and mdiag == tail:
                n_tree_eq += 1
            else:
                tree_diffs.append({"id": cid, "input_hex": hx, "input": unhex(hx)[:200],
                                   "model_tree": m[1][:300], "real_tree": r[0][:300],
                                   "model_diag_ranges": mdiag[:10], "real_diag_ranges": tail[:10]})
            if "gram" in flags:
                n_gram += 1
                st = re.sub(r"[0-9]+$", "", cid)
                gram_by_stream[st] = gram_by_stream.get(st, 0) + 1
                gram_trace |= int(flags.get("trace", 0))
                if flags["gram"] == "EQ":
                    n_gram_eq += 1
                else:
                    gram_diffs.append({"id": cid, "input_hex": hx, "input": unhex(hx)[:300], "model": flags["gram"],
                                       "first_difference": (m[4] if len(m) > 4 else "")[:300]})
            if hyp and flags.get("lossless") != "true":
                ctx.broken_ties.append(("model contradicts buildTree_lossless", cid))
            if len(samples) < 3 and cid.startswith("r") and len(hx) < 160:
                samples.append({"id": cid, "input": unhex(hx), "real_tokens(kind:bytes)": toks,
                                "tree": r[0][:400], "diag_ranges": r[1]})
    if lex_diffs:
        lex_diffs.sort(key=lambda d: len(d["input_hex"]))
        ctx.broken_ties.append(("L1 lexer: lexAll(real error lengths) != lexer::lex",
                                f"{len(lex_diffs)} inputs; smallest: " + json.dumps(lex_diffs[0], ensure_ascii=False)))
    if tree_diffs:
        tree_diffs.sort(key=lambda d: len(d["input_hex"]))
        ctx.broken_ties.append(("L1 tree: buildTree(real events, real tokens) != build_tree",
                                f"{len(tree_diffs)} inputs; smallest: " + json.dumps(tree_diffs[0], ensure_ascii=False)))

    if gram_diffs:
        gram_diffs.sort(key=lambda d: len(d["input_hex"]))
        ctx.broken_ties.append(("L1 grammar: flatL(run file) on the real token kinds != Parser.events",
                                f"{len(gram_diffs)} inputs; smallest: " + json.dumps(gram_diffs[0], ensure_ascii=False)))
    if case_lines and n_gram == 0:
        ctx.broken_ties.append(("grammar tie", "the model driver answered no grammar comparison"))
    # which modelled grammar functions / loop heads were entered by the model while it reproduced the real events
    gram_cov = {}
    if os.path.exists(vlib.MODEL):
        p = vlib.srun([vlib.MODEL, "grammar"], input="", stdout=subprocess.PIPE, stderr=subprocess.PIPE, text=True, timeout=120)
        fns, loops, missing = [], [], []
        for l in p.stdout.split("\n"):
            f = l.split("\t")
            if len(f) == 4 and f[0] == "F":
                if f[2] != "-":
                    fns.append((f[1], int(f[2])))
                for i, x in enumerate([x for x in f[3].split(",") if x]):
                    loops.append((f"{f[1]}#loop{i + 1}", int(x)))
        hit_f = [n for n, i in fns if gram_trace >> i & 1]
        hit_l = [n for n, i in loops if gram_trace >> i & 1]
        missing = [n for n, i in fns + loops if not gram_trace >> i & 1]
        gram_cov = {"grammar_functions_modelled": len(fns), "grammar_functions_exercised": len(hit_f),
                    "loop_heads_modelled": len(loops), "loop_heads_exercised": len(hit_l), "not_exercised": missing}
        if case_lines and not ctx.replay and missing:
            ctx.broken_ties.append(("grammar tie coverage", f"modelled functions / loops never entered: {missing}"))
    # ---- (3) the fuel-limit catalogue still does what it is for (never keyed to one input: classes and counts only)
    fuel_cov = {}
    if ok and not ctx.replay:
        gen = lambda f: open(os.path.join(vlib.LEAN, "GomlVerif", "Gen", f), encoding="utf-8").read()
        try:
            m = re.search(r"def unboundedLookaheadFns : List String := \[(.*?)\]", gen("Lookahead.lean"))
            extracted_fns = re.findall(r'"([^"]+)"', m.group(1)) if m else None
            m = re.search(r"def parserFuel : Nat := (\d+)", gen("Consts.lean"))
            model_fuel = int(m.group(1)) if m else None
        except OSError:
            extracted_fns, model_fuel = None, None
        covered = [x for x in stats.get("lookahead_fns_covered", "").split(",") if x]
        measured = int(stats.get("measured_fuel", 0))
        zero_by_class = {k.split(":", 1)[1]: int(v) for k, v in stats.items() if k.startswith("fuel_zero_class:")}
        size_by_class = {k.split(":", 1)[1]: int(v) for k, v in stats.items() if k.startswith("fuel_limit_class:")}
        fuel_cov = {
            "measured_fuel_of_the_real_parser": measured, "parserFuel_of_the_model": model_fuel,
            "unbounded_lookahead_functions_in_the_source": extracted_fns, "covered_by_the_catalogue": covered,
            "catalogue_inputs_by_class": size_by_class, "inputs_that_ran_out_of_fuel_by_class": zero_by_class,
            "inputs_that_ran_out_of_fuel_by_stream": {k.split(":", 1)[1]: int(v) for k, v in stats.items() if k.startswith("fuel_zero:")},
        }
        if extracted_fns is None or model_fuel is None:
            ctx.broken_ties.append(("fuel-limit catalogue", "Gen/Lookahead.lean or Gen/Consts.lean unreadable"))
        else:
            missing = [f for f in extracted_fns if f not in covered]
            if missing:
                ctx.broken_ties.append(("fuel-limit catalogue", f"the parser looks ahead by a computed distance in {missing}, which no "
                                        "`look-…` shape of harness/src/c12.rs::fuel_limit_inputs drives past the fuel limit"))
            if measured != model_fuel:
                ctx.broken_ties.append(("fuel-limit catalogue", f"the real parser answers {measured} looks before it says eof, the model's "
                                        f"parserFuel is {model_fuel}"))
            for cls in ("look", "wind", "after"):
                if measured < 4096 and zero_by_class.get(cls, 0) == 0:
                    ctx.broken_ties.append(("fuel-limit catalogue", f"no `{cls}-…` input makes the parser run out of fuel any more: "
                                            "the catalogue no longer reaches the limit it is built around"))
            if zero_by_class.get("flat", 0) != 0:
                ctx.notes.append(f"fuel-limit catalogue: {zero_by_class['flat']} `flat-…` inputs (loops that consume a token per round) ran out of fuel")

    streams = {k.split(":", 1)[1]: int(v) for k, v in stats.items() if k.startswith("stream:")}
    cov = {
        "evaluations": len(case_lines), "distinct_nontrivial": len(distinct),
        "rule": "one case = one input text run through the real lexer::lex, Parser+file::file+build_tree and parser::parse; "
                "non-trivial = the real lexer produced at least 2 tokens; distinct by input bytes",
        "samples": samples,
        "input_streams": streams,
        "alphabet_exhaustive": "34 symbols (a f n i u A 0 1 8 _ \" \\ / LF CR SP TAB . : = > - < ! & | ( } # $ ; U+0001 é 😀) up to length 3 "
                               "(thorough: 4); 18-symbol string/number alphabet up to 4 (5); multi-line-string alphabets "
                               "{\\ LF SP a é \" /} up to 6 (7), {\\ LF SP 😀} up to 8 (9), {\\ LF é a SP} up to 7 (8); "
                               "special-character alphabet {U+FEFF U+200B U+00A0 U+2028 U+0085 NUL CR LF FF SP a 1 \" / \\ # !} up to 3 (4); "
                               "special-edge family: 27 specials (BOM, U+FFFE, NUL, ZWSP, LS, PS, NBSP, NEL, CR, CRLF, LF, FF, VT, shebang lines, "
                               "BOM twice / after blank / before shebang, …) before, after, around, between and inside short texts, dictionary "
                               "tokens and corpus files; "
                               "plus deeply nested inputs (12 shapes, depth 10^3..10^5) run in child processes on the default stack; "
                               "fuel-limit catalogue (sizes from the MEASURED fuel F of the real parser: windows around F/4, F/3, F/2, F, and 2F+1): "
                               "lookahead-only scans (`impl` + path in 10 positions), ~40 shapes of stacked frames that look while they unwind "
                               "(closed, cut off, closers removed, in front of a re-checked `{`/`(`), ~35 loops that consume per round, and every "
                               "item kind after a construct that leaves the parser out of fuel",
        "fuel_limit_catalogue": fuel_cov,
        "harness_stats": {k: v for k, v in stats.items() if not k.startswith("stream:")},
        "lexer_tie_equal": n_lex_eq, "lexer_tie_diffs": len(lex_diffs),
        "tree_tie_cases": n_tree, "tree_tie_equal": n_tree_eq, "tree_tie_diffs": len(tree_diffs),
        "real_event_lists_inside_buildTree_lossless_hypotheses": n_hyp,
        "grammar_tie_cases": n_gram, "grammar_tie_equal": n_gram_eq, "grammar_tie_diffs": len(gram_diffs),
        "grammar_tie_cases_by_id_prefix": gram_by_stream, "grammar_coverage": gram_cov,
        "model_trees_lossless": n_lossless,
        "impl_oracle_failures": len(oracle_rows), "model_diffs": len(lex_diffs) + len(tree_diffs) + len(gram_diffs),
    }
    ctx.assumptions += [
        "logos' generated automaton is not modelled state by state: the model is 'longest match, then priority' over the "
        "rules regenerated from the #[token]/#[regex] attributes; the length of an error token is a parameter of the model "
        "(all theorems hold for every positive length) and the run feeds it the real lengths",
        "rowan's GreenNodeBuilder is modelled (start_node/token/finish_node/finish) and tied through the rendered tree; "
        "rowan's text_range arithmetic is observed directly (node ranges inside the text), not modelled beyond prefix sums",
        "Parser::build_tree is modelled as two passes (forward-parent resolution, then cursor/builder); the real code interleaves them",
        "the parser's grammar functions (file::file …) are not modelled here: their real event lists are checked to lie inside "
        "the hypotheses of buildTree_lossless on every run (balanced, enough Advance events); C04 owns 'file consumes all tokens'",
        "file_advances_cover_tokens / file_after_lookahead are about the top-level loop of Model/ParserFuel.lean with ARBITRARY item "
        "parsers that satisfy StepOK and KeepsCovered (proved for every primitive and closed under composition), not about the "
        "item parsers of file.rs one by one; that Parser::eof is the fuel-independent Input::eof is asserted by the translator "
        "(extract_parser_consts) and observed by C04's fuel-ops tie",
    ]
    tb = ["Lean 4 kernel", "axioms: " + ",".join(ctx.proof["axioms"] or ["none"]),
          "tools/extract.py (regex subset parser, enum/attribute reader)", "harness/src/c12.rs (serialisation of tokens, events, green tree)",
          "tools/props/c12.py (comparison)", "logos 0.15 / rowan 0.16 behaviour as observed through the tie"]
    return ctx.finish("proof", cov, tb, "lake build GomlVerif.Props.C12 && lake env lean Axioms.lean (#print axioms)")
