"""C13 — compilation is deterministic and reproducible.

proof      Props/C13.lean over Model/Graph.lean: discovery, ids, dependency order and concatenation order
           do not depend on how any set of package names is enumerated.
tie        (L1) the real `discover_packages` + `topo_sort_packages` (+ ids of a whole compile) on package
           layouts written to disk, and `topo_sort_packages` on raw graphs, equal the model's output;
           (translator) Gen/PackageIds.lean regenerated from pipeline.rs / hir.rs / packages.rs.
oracle     independent of the model: every project is compiled K times in this process (fresh thread =
           fresh hash keys, directories created in permuted order) and once in each of several child
           processes; Go text, all stage dumps, diagnostics, discovery order, interface bytes and hashes
           must be byte-identical.
"""
import json, os, re, subprocess, sys, concurrent.futures
import vlib

CHANNEL_ORDER = ["outcome", "diagnostics", "discovery_order", "cst", "ast", "hir", "package_ids", "tast", "core",
                 "mono", "lift", "anf", "go", "interfaces"]


def msg_class(line, limit=7):
    """words of a diagnostic that are not names: identifies the message template"""
    body = line.split("|", 3)[-1]
    ws = [w for w in body.split() if w.isalpha() and w.islower() and len(w) > 2]
    return " ".join(ws[:limit])


def classify(mism):
    """signature of a non-determinism from the per-channel first differences of one project"""
    chans = {m["channel"]: m for m in mism}
    if "discovery_order" in chans:
        return {"oracle": "recompile", "kind": "discovery-order"}
    for ch in CHANNEL_ORDER:
        if ch in chans:
            m = chans[ch]
            l0, l1 = m["a"].split("\n"), m["b"].split("\n")
            re_ord = sorted(l0) == sorted(l1)
            sig = {"oracle": "recompile", "kind": ch + ("-reordered" if re_ord else "-differs")}
            # which top-level item of the text the first difference sits in (`import`, `type`, `func`, `fn` …)
            it = re.search(r"\[in ([A-Za-z_]+)\]", m.get("first_difference", ""))
            if it and ch not in ("diagnostics", "interfaces", "outcome"):
                sig["item"] = it.group(1)
            if ch in ("diagnostics", "interfaces"):
                d, e = next(((x, y) for x, y in zip(l0, l1) if x != y), (l0[0] if l0 else "", ""))
                # the words the two differing lines share: names that merely swapped places drop out
                other = set(msg_class(e, 99).split())
                sig["message"] = " ".join([w for w in msg_class(d, 99).split() if w in other or not e][:7])
            return sig
    return {"oracle": "recompile", "kind": "unknown-channel"}


def run(ctx):
    ctx.extract()
    ctx.build_lean(["GomlVerif.Props.C13"])
    repo = os.environ.get("GV_REPO", "/repo")
    # ---- auxiliary source scan (not part of the proof)
    rc, out = vlib.sh([sys.executable, os.path.join(vlib.VERIF, "tools", "hashiter.py"), repo])
    scan = {"sites": [], "counts": {}}
    try:
        scan = json.loads(out)
    except Exception:
        ctx.notes.append("hashiter.py failed: " + out[-300:])
    unclassified = [s for s in scan["sites"] if s["class"] == "unclassified"]
    observable = [s for s in scan["sites"] if s["class"] == "observable"]
    # An iteration over a std HashMap/HashSet that the classification table does not know is new or edited code: its order
    # may reach an output.  That is a broken tie naming the site (the K-fold search below is widened as well and is what
    # produces a concrete failing input when the order really is observable).
    for s_ in unclassified:
        ctx.broken_ties.append(("hash-iteration site", f"{s_['file']}:{s_['line']} fn {s_['fn']}: `{s_['text']}` iterates the std "
                                f"HashMap/HashSet `{s_['receiver']}` and is not classified in tools/hashiter.py: the iteration order follows "
                                "the process's RandomState; sort what it yields (or use an ordered collection) before it can reach Go text, "
                                "a dump, a diagnostic or a hash — or classify the site as order-insensitive with the reason"))
    for s_ in observable:
        ctx.broken_ties.append(("hash-iteration site", f"{s_['file']}:{s_['line']} fn {s_['fn']}: `{s_['text']}` is listed as OBSERVABLE "
                                f"in tools/hashiter.py ({s_['why']})"))
    # the scanner itself: every way of introducing a hash-typed binding x every way of iterating it must be seen
    rc2, out2 = vlib.sh([sys.executable, os.path.join(vlib.VERIF, "tools", "hashiter.py"), "--selftest"])
    scan_selftest = {}
    try:
        scan_selftest = json.loads(out2)
    except Exception:
        ctx.broken_ties.append(("hashiter selftest", "tools/hashiter.py --selftest failed: " + out2[-300:]))
    for miss in scan_selftest.get("missed", [])[:10]:
        ctx.broken_ties.append(("hashiter selftest", f"the scanner does not see the hash iteration `{miss}`"))
    for fp in scan_selftest.get("false_positives", [])[:10]:
        ctx.broken_ties.append(("hashiter selftest", f"the scanner reports an ordered collection as a hash iteration: `{fp}`"))
    if not ctx.build_harness():
        return ctx.finish("proof", {"evaluations": 0, "distinct_nontrivial": 0}, [], "lake build")
    extra = ["widen"] if unclassified else []
    nchild = 3 if ctx.tier == "quick" else 8
    # children run concurrently with the master
    env = dict(vlib.ENV, GV_SCRATCH=os.path.join(vlib.CACHE, "scratch"), GV_VERIF=vlib.VERIF, GV_REPO=repo)

    # cheap extra processes that recompile only the collection-diagnostics and emission-collections families: a
    # hash-ordered diagnostic / import list / declaration list shows up as soon as two processes (two hash seeds)
    # print different texts
    ndiag = 20 if ctx.tier == "quick" else 48

    def child(i):
        cmd = [vlib.GV, "c13", "child", "--n", str(i), "--seed", str(ctx.seed), "--tier", ctx.tier, "--out", ctx.run_dir]
        if i > nchild:
            cmd += ["only", "collection-diagnostics,emission-collections"]
        p = subprocess.run(cmd, env=env, stdout=subprocess.PIPE, stderr=subprocess.STDOUT, text=True, timeout=3000)
        return i, p.returncode, p.stdout[-1500:]

    for f in os.listdir(ctx.run_dir):
        if f.startswith("c13."):
            os.remove(os.path.join(ctx.run_dir, f))
    with concurrent.futures.ThreadPoolExecutor(max_workers=nchild + 5) as ex:
        futs = [ex.submit(child, i) for i in range(1, nchild + ndiag + 1)]
        # a file system whose readdir order follows creation order (tmpfs: newest first), so that the
        # permuted copies really are enumerated in different orders (ext4 orders by name hash)
        scratch = None
        if os.path.isdir("/dev/shm") and os.access("/dev/shm", os.W_OK):
            scratch = f"/dev/shm/gv-c13-{os.getpid()}"
            os.makedirs(scratch, exist_ok=True)
        try:
            ok, out = ctx.gv("c13", extra, scratch=scratch)
        finally:
            if scratch:
                import shutil
                shutil.rmtree(scratch, ignore_errors=True)
        ctx.notes.append("scratch for permuted copies: " + ("tmpfs /dev/shm (readdir order = reverse creation order)" if scratch else "default file system (enumeration order may not vary)"))
        kids = [f.result() for f in futs]
    for i, rc, o in kids:
        if rc != 0:
            ctx.broken_ties.append((f"harness gv c13 child {i}", o))

    # ---- (L1) graph tie
    rows = vlib.read_tsv(os.path.join(ctx.run_dir, "c13.graph.tsv")) if ok else []
    cases = [r for r in rows if len(r) >= 4 and r[1] == "CASE"]
    model = ctx.model("c13", [f"{r[0]}\t{r[2]}" for r in cases]) if cases and os.path.exists(vlib.MODEL) else {}
    n_eq, shapes, outcomes, samples, distinct = 0, {}, {}, [], set()
    tie_diffs = []
    for r in cases:
        cid, sexp, real = r[0], r[2], r[3]
        others = r[4] if len(r) > 4 else ""
        pred = (model.get(cid) or ["<no model output>"])[0]
        kind = {"d": "disk-layout", "r": "raw-graph-exhaustive", "q": "raw-graph-random"}[cid[0]]
        shapes[kind] = shapes.get(kind, 0) + 1
        oc = " ".join(real.strip("()").split()[:2]) if real.startswith("(err") else "ok"
        outcomes[oc] = outcomes.get(oc, 0) + 1
        if len(re.findall(r"\(\w+ (?:unit \w+ )?\((?:\w+ )+\w+\)\)", sexp)) >= 1:
            distinct.add(sexp)   # some package with >= 2 imports
        if others:
            # implementation-level: the same directory gave two different answers
            ctx.report({"oracle": "recompile", "kind": "discovery-order"},
                       "discover_packages/topo_sort_packages give different results for the same package directories",
                       {"id": cid, "layout": sexp, "first": real, "others": others.split(" ;; "), "model": pred})
        if pred == real:
            n_eq += 1
        else:
            tie_diffs.append((cid, sexp, real, pred))
        if len(samples) < 3 and kind == "disk-layout" and ("cycle" in real or real.count(" ") > 12):
            samples.append({"id": cid, "input": sexp, "implementation": real, "model": pred})
    for cid, sexp, real, pred in tie_diffs[:10]:
        ctx.broken_ties.append(("graph correspondence", f"{cid}: {sexp} impl={real} model={pred}"))

    # ---- K-fold recompilation oracle
    det = vlib.read_tsv(os.path.join(ctx.run_dir, "c13.det.tsv")) if ok else []
    projs = {r[0]: r for r in det if len(r) > 9 and r[1] == "DET"}
    mism = {}
    for r in det:
        if len(r) >= 6 and r[1] == "MISMATCH":
            mism.setdefault(r[0], []).append({"channel": r[2], "first_difference": vlib.unesc(r[3]),
                                              "a": vlib.unesc(r[4]), "b": vlib.unesc(r[5])})
    kinds, tagcount, total_compiles = {}, {}, 0
    nontrivial = set()
    for pid, r in projs.items():
        kinds[r[2]] = kinds.get(r[2], 0) + 1
        total_compiles += int(r[4])
        for t in r[3].split(","):
            if t:
                tagcount[t] = tagcount.get(t, 0) + 1
        if int(r[6]) >= 2 or int(r[8]) >= 2 or r[2] == "emission-collections":
            nontrivial.add(pid)
        if r[2] == "emission-collections" and r[7] != "ok":
            # the family is there to exercise the back end: a member that stops earlier exercises nothing
            ctx.broken_ties.append(("emission-collections family", f"{pid} does not compile: outcome `{r[7]}` "
                                    f"(gv c13 emit --n <k> prints the diagnostics)"))
    for pid, ms in mism.items():
        src = ""
        sp = os.path.join(ctx.run_dir, f"c13.src.{pid}.txt")
        if os.path.exists(sp):
            src = open(sp).read()[:20000]
        sig = classify(ms)
        ctx.report(sig, f"{projs[pid][4]} in-process compiles of the same sources differ: {sig['kind']}"
                        + (f" ({sig['message']})" if "message" in sig else ""),
                   {"project": pid, "how": "in-process, fresh hash keys per compile, directories created in permuted order",
                    "k": int(projs[pid][4]), "distinct_per_channel": projs[pid][9],
                    "differences": [{k: v[:1500] for k, v in m.items()} for m in ms], "sources": src})

    # ---- cross-process
    def digests(path):
        d = {}
        for r in vlib.read_tsv(path):
            if len(r) >= 3:
                d[(r[0], r[1])] = r[2]
        return d
    master = digests(os.path.join(ctx.run_dir, "c13.digest.master.tsv")) if ok else {}
    listing_master = {}
    lm = os.path.join(ctx.run_dir, "c13.cdiag.master.tsv")
    if os.path.exists(lm):
        for r in vlib.read_tsv(lm):
            if len(r) >= 3:
                listing_master[r[0]] = (vlib.unesc(r[1]), vlib.unesc(r[2]))

    def listing_child(i):
        out = {}
        pth = os.path.join(ctx.run_dir, f"c13.cdiag.child{i}.tsv")
        if os.path.exists(pth):
            for r in vlib.read_tsv(pth):
                out[r[0]] = vlib.unesc(r[1]) if len(r) > 1 else ""
        return out
    xproc_checked, xproc_bad, xproc_child = 0, {}, {}
    for i, rc, _ in kids:
        p = os.path.join(ctx.run_dir, f"c13.digest.child{i}.tsv")
        if rc != 0 or not os.path.exists(p):
            continue
        cd = digests(p)
        only_family = i > nchild
        want = set(k[0] for k in master if not only_family or k[0].startswith(("cdiag-", "emit-")))
        if set(k[0] for k in cd) != want:
            ctx.broken_ties.append(("cross-process", f"child {i} compiled a different project set"))
        for key, dg in master.items():
            if key[0] not in want:
                continue
            xproc_checked += 1
            if cd.get(key) != dg:
                xproc_bad.setdefault(key[0], set()).add(key[1])
                xproc_child.setdefault(key[0], i)
    for pid, chans in xproc_bad.items():
        if pid in mism:
            continue   # already reported with texts by the in-process run
        kind = "discovery-order" if "discovery_order" in chans else next(c for c in CHANNEL_ORDER + sorted(chans) if c in chans) + "-differs"
        payload = {"project": pid, "how": "cross-process digests", "channels": sorted(chans)}
        sig = {"oracle": "recompile", "kind": kind}
        if pid in listing_master:
            # the family keeps the full listings: show the program and two listings, classify like the in-process run
            a_txt, src = listing_master[pid]
            b_txt = listing_child(xproc_child[pid]).get(pid, "")
            payload.update({"sources": src, "listing_master_process": a_txt, "listing_child_process": b_txt, "child": xproc_child[pid]})
            if "diagnostics" in chans and a_txt != b_txt:
                sig = classify([{"channel": "diagnostics", "a": a_txt, "b": b_txt}])
            elif "go" in chans and pid.startswith("emit-") and a_txt != b_txt:
                # emission-collections family: the listings are the declaration skeletons of the two Go texts
                la, lb = a_txt.split("\n"), b_txt.split("\n")
                i = next((j for j, (x, y) in enumerate(zip(la, lb)) if x != y), min(len(la), len(lb)))
                item = (la[i] if i < len(la) else "").split(" ")[0].split("(")[0]
                fd = f"declaration {i + 1} [in {item}]: `{la[i] if i < len(la) else ''}` vs `{lb[i] if i < len(lb) else ''}`"
                sig = classify([{"channel": "go", "a": a_txt, "b": b_txt, "first_difference": fd}])
                payload["first_difference"] = fd
        ctx.report(sig, f"another process compiling the same sources produced different bytes ({sig['kind']})", payload)

    cov = {
        "evaluations": len(cases) + total_compiles + len(kids) * len(projs),
        "distinct_nontrivial": len(distinct) + len(nontrivial),
        "rule": "graph tie: one case = one package layout written to disk (real discover_packages + topo_sort_packages + ids of a whole "
                "compile) or one raw PackageGraph (topo_sort_packages), compared with the model; non-trivial = some package has >= 2 imports, "
                "distinct by layout text. Recompilation: one evaluation = one whole compile (+ separate build of every package) of a project; "
                "non-trivial = Main has >= 2 imports or the compile reports >= 2 diagnostics or the project belongs to the "
                "emission-collections family (k >= 2 members of one collection the back end prints), distinct by project",
        "samples": samples,
        "graph_cases": shapes, "graph_outcomes": outcomes, "graph_cases_equal": n_eq, "model_diffs": len(tie_diffs),
        "projects": kinds, "project_features": dict(sorted(tagcount.items())),
        "in_process_compiles": total_compiles, "child_processes": len(kids), "cross_process_digests_compared": xproc_checked,
        "channels_compared": CHANNEL_ORDER,
        "projects_nondeterministic": sorted(set(mism) | set(xproc_bad)),
        "impl_oracle_failures": len(ctx.violations),
        "hash_iteration_scan": {
            "files": scan.get("files", []), "counts": scan.get("counts", {}),
            "unclassified": [{k: s[k] for k in ("file", "line", "fn", "text")} for s in unclassified],
            "observable": [{k: s[k] for k in ("file", "line", "fn", "text", "why")} for s in observable],
            "search_widened": bool(unclassified),
            "scanner_selftest": {k: scan_selftest.get(k) for k in ("cases", "introductions", "iterations", "missed", "false_positives")},
        },
    }
    if unclassified:
        ctx.notes.append(f"{len(unclassified)} HashMap/HashSet iteration(s) not in the classification table of tools/hashiter.py: K tripled")
    ctx.assumptions += [
        "a HashSet/HashMap iterates its elements in some order that is a function of its RandomState only; nothing else in the compiler "
        "reads a random source (no time, no addresses printed) — the K-fold and cross-process runs test this, they do not prove it",
        "the passes after discovery are Rust functions of their inputs apart from hash iteration; tools/hashiter.py lists the iterations "
        "(source scan, heuristic, not part of the proof)",
        "String's Ord in Rust (bytewise) = Lean's String.lt (code points) on valid UTF-8 package names",
    ]
    tb = ["Lean 4 kernel", "axioms: " + ",".join(ctx.proof["axioms"] or ["none"]),
          "tools/extract.py gen_package_ids (regex over pipeline.rs, hir.rs, packages.rs)",
          "harness/src/c13.rs (project generator, error-message classification, SipHash digests for the cross-process comparison)",
          "tools/props/c13.py", "tools/hashiter.py (auxiliary)"]
    return ctx.finish("proof", cov, tb, "lake build GomlVerif.Props.C13 && #print axioms")
