"""C14 — separate compilation is equivalent to whole-program compilation.

proof:   lean/GomlVerif/Props/C14.lean over Model/Sem.lean (run_perm_invariant, run_alpha_invariant — closures included,
         by a relation on values —, separate_eq_whole_validated) and
         Model/Link.lean (check_build_same_interface)
tie:     the real Core of both ways, fed to `gomlmodel c14`: the separate Core must be the whole-program Core up to
         the order of the functions and a per-function renaming of bound names (the driver finds the renaming and
         checks the hypotheses of the two theorems on the real Core)
oracle:  model-free — every project is compiled whole and separately in every topological order with artefacts
         round-tripped through their JSON files; acceptance must agree (same stage when rejected), the Go ASTs of both
         ways must behave alike under Go.Sem, the linked Cores alike under Sem, Go validity (Go.Check) must agree, and
         check_package / build_package must write the same interface bytes, and the exports of every built package read
         back from the .interface JSON text must equal what was written (Debug rendering of exports / to_genv() /
         hir_interface, compact JSON, recomputed hash); check_package and build_package are compared on every package
         of every project, rejected ones included: same stage and same diagnostics when both reject, and check may
         accept what build rejects only when all of build's diagnostics come from match compilation
"""
import collections, json, os, re, subprocess
import vlib
from props import c01


def collect(ctx):
    ok, out = ctx.gv("c14")
    rows = vlib.read_tsv(os.path.join(ctx.run_dir, "c14.cases.tsv")) if ok else []
    progs = collections.OrderedDict()
    for r in rows:
        d = progs.setdefault(r[0], {"stages": {}, "sep": [], "iface": []})
        k = r[1]
        if k == "SRC":
            d["src"] = vlib.unesc(r[2])
        elif k == "WHOLE":
            d["whole"] = r[2:]
        elif k == "GRAPH":
            d["graph"] = r[2:]
        elif k == "PROJECT":
            d["project"] = r[2:]
        elif k == "STAGE":
            d["stages"][r[2]] = r[3]
        elif k == "SEP":
            d["sep"].append(r[2:])
        elif k == "IFACE":
            d["iface"].append(r[2:])
        elif k == "GENV":
            d.setdefault("genv", []).append(r[2:])
        elif k == "RT":
            d.setdefault("rt", []).append(r[2:])
    return progs


def run_model(ctx, lines):
    p = vlib.srun(["bash", "-c", f"ulimit -s unlimited; exec {vlib.MODEL} c14"], input="\n".join(lines) + "\n",
                       stdout=subprocess.PIPE, stderr=subprocess.PIPE, text=True, timeout=3000)
    res = {}
    for l in p.stdout.split("\n"):
        f = l.split("\t")
        if len(f) >= 2:
            res[f[0]] = f[1:]
    if p.returncode != 0:
        ctx.broken_ties.append(("model driver c14", p.stderr[-1000:]))
    return res


def diag_class(msg):
    m = msg.split(" | ")[0]
    m = re.sub(r"ExprId \{[^}]*\}", "<expr>", m)
    m = re.sub(r"TVar\(\d+\)|TypeVar\(\d+\)", "<tvar>", m)
    m = re.sub(r"\b[0-9a-f]{16,}\b", "<hash>", m)
    m = re.sub(r"/[^\s:()]+", "<path>", m)
    return m[:90]


def match_compilation_messages(ctx):
    """the shapes of the diagnostics match compilation can raise, read off compile_match.rs on every run: the format
    strings next to each `Stage::other("compile")`; `{…}` holes become wildcards"""
    path = os.path.join(os.environ.get("GV_REPO", "/repo"), "crates/compiler/src/compile_match.rs")
    try:
        lines = open(path).read().split("\n")
    except OSError as e:
        ctx.broken_ties.append(("compile_match.rs", str(e)))
        return []
    shapes = []
    for i, l in enumerate(lines):
        if 'Stage::other("compile")' not in l:
            continue
        window = "\n".join(lines[max(0, i - 12):i + 5])
        for m in re.finditer(r'format!\(\s*"((?:[^"\\]|\\.)*)"', window):
            rx = "^" + ".*".join(re.escape(part) for part in re.split(r"\{[^}]*\}", m.group(1))) + "$"
            if rx not in shapes:
                shapes.append(rx)
    if len(shapes) < 3:
        ctx.broken_ties.append(("compile_match.rs", f"expected at least 3 diagnostics of stage compile, found {shapes}"))
    return shapes


def only_match_compilation(outcome, shapes):
    """`err:compile:<messages>` all of whose messages are diagnostics of match compilation (and not the errors stage
    `compile` also carries: cycle, missing or stale interface, package mismatch - `check` raises those as `build` does)"""
    f = outcome.split(":", 2)
    return len(f) == 3 and f[0] == "err" and f[1] == "compile" and all(any(re.match(rx, m, re.S) for rx in shapes) for m in f[2].split(" | "))


def run(ctx):
    ctx.extract()
    have_props = os.path.exists(os.path.join(vlib.LEAN, "GomlVerif/Props/C14.lean"))
    ctx.build_lean(["GomlVerif.Props.C14"] if have_props else [])
    if not ctx.build_harness():
        return ctx.finish("proof", {"evaluations": 0, "distinct_nontrivial": 0, "samples": []}, [], "lake build")
    progs = collect(ctx)
    c01.evaluate(ctx, progs)
    go_lines = [f"{pid}|{st}\t{sx}" for pid, d in progs.items() for st, sx in d["stages"].items() if st.endswith(".go")]
    gc = c01.gocheck(ctx, go_lines) if go_lines else {}

    n_proj = n_both_ok = n_both_err = n_orders = n_beh = n_beh_ok = n_iface = n_iface_same = 0
    n_text_equal = n_text_differs = 0
    kinds = collections.Counter()
    tpl_tags = collections.Counter()
    tags = collections.Counter()
    order_hist = collections.Counter()
    samples, distinct = [], set()
    equiv_lines, equiv_meta = [], {}
    n_iface_compile_only = n_iface_both_err = 0
    mc_shapes = match_compilation_messages(ctx)
    iface_verdicts, iface_err_stage, whole_err_stage = collections.Counter(), collections.Counter(), collections.Counter()

    for pid, d in progs.items():
        if "whole" not in d:
            continue
        n_proj += 1
        proj = d.get("project", ["?", "", "", "", ""])
        kinds[proj[0]] += 1
        for t in (proj[1].split(",") if len(proj) > 1 and proj[1] else []):
            if proj[0] in ("template", "random-kinds", "import-rule", "early-diagnostic", "late-diagnostic", "entry-point", "lookup-visibility", "c16-world"):
                tpl_tags[t] += 1
            if t.startswith("shape=") or t in ("generics", "ill-typed", "multi-file"):
                tags[t] += 1
        payload = {"id": pid, "src": d.get("src", "")[:6000], "whole": d["whole"][:3], "orders": [s[:6] for s in d["sep"]][:8]}
        w = d["whole"]
        if w[0] == "panic":
            ctx.report({"oracle": "crash", "way": "whole"}, f"whole-program compilation panics: {w[1][:160]}", payload)
            continue
        if "graph" in d and d["graph"][0] == "panic":
            ctx.report({"oracle": "crash", "way": "discovery"}, f"package discovery panics: {d['graph'][1][:160]}", payload)
            continue
        if "graph" in d and w[0] == "ok":
            # discovery / topological sort failed, yet the whole-program path, which runs the same code first, accepts
            ctx.report({"oracle": "acceptance", "whole": "ok", "separate": "graph-err"},
                       f"package discovery fails ({d['graph'][1:3]}) but the whole-program compile accepts", payload)
            continue
        # (when discovery fails the separate builds were run in an order read off the `import` lines of the sources)
        if not d["sep"]:
            ctx.broken_ties.append(("harness", f"{pid}: no separate build was attempted"))
            continue
        order_hist[proj[4] if len(proj) > 4 else "?"] += 1
        # ---- acceptance, per order
        agree = True
        for s in d["sep"]:
            n_orders += 1
            k, order, verdict = s[0], s[1], s[2]
            if verdict == "panic":
                agree = False
                ctx.report({"oracle": "crash", "way": "separate"}, f"separate compilation panics (order {order}): {s[3][:160]}", payload)
            elif w[0] == "ok" and verdict != "ok":
                agree = False
                ctx.report({"oracle": "acceptance", "whole": "ok", "separate": f"err:{s[3]}", "class": diag_class(vlib.unesc(s[5]) if len(s) > 5 else "")},
                           f"accepted as a whole program, rejected when built separately in order {order}: {s[3:6]}", payload)
            elif w[0] == "err" and verdict == "ok":
                agree = False
                ctx.report({"oracle": "acceptance", "whole": f"err:{w[1]}", "separate": "ok", "class": diag_class(vlib.unesc(w[2]) if len(w) > 2 else "")},
                           f"rejected as a whole program ({w[1]}: {w[2][:120]}), accepted when built separately in order {order}", payload)
            elif w[0] == "err" and verdict == "err" and s[3] != w[1]:
                agree = False
                ctx.report({"oracle": "acceptance", "whole": f"err:{w[1]}", "separate": f"err:{s[3]}"},
                           f"rejected in different stages: whole {w[1]}, separate {s[3]} ({s[4]}) in order {order}", payload)
        # ---- check vs build, every package of every order, whether or not the project is accepted: `check_package` and
        #      `build_package` run the same front end on the same files against the same interfaces, so they accept the
        #      same packages with the same interface bytes and reject the same packages in the same stage with the same
        #      diagnostics; the one stage `build` runs beyond `check` is match compilation (stage compile)
        payload["check_vs_build"] = [r[:3] + [vlib.unesc(x)[:300] for x in r[3:5]] for r in d["iface"] if r[2] != "same"][:6]
        for row in d["iface"]:
            n_iface += 1
            verdict = row[2]
            chk, bld = (vlib.unesc(row[3]), vlib.unesc(row[4])) if len(row) > 4 else ("?", "?")
            cst, bst = (x if x in ("ok", "?") else ":".join(x.split(":")[:2]) for x in (chk, bld))
            iface_verdicts[f"{verdict} (whole program {'accepted' if w[0] == 'ok' else 'rejected'})"] += 1
            if len(row) <= 4:
                ctx.broken_ties.append(("harness", f"{pid}: IFACE row without the outcomes of check and build"))
            elif verdict == "same":
                n_iface_same += 1
            elif chk == "ok" and only_match_compilation(bld, mc_shapes):
                # accepted by the typer, rejected by match compilation, which `check` does not run; the whole-program
                # path must then reject in stage compile as well (acceptance oracle above)
                n_iface_compile_only += 1
            elif chk != "ok" and bld != "ok" and cst == bst and sorted(map(diag_class, chk.split(":", 2)[2].split(" | "))) == sorted(map(diag_class, bld.split(":", 2)[2].split(" | "))):
                n_iface_both_err += 1
                iface_err_stage[cst.split(":")[1]] += 1
            else:
                kind = (verdict if verdict in ("differ", "check-ok-build-err", "check-err-build-ok", "both-err-different-stage")
                        else "check-ok-build-err" if chk == "ok" else "both-err-different-diagnostics")
                ctx.report({"oracle": "check-vs-build", "kind": kind, "check": cst, "build": bst},
                           f"check_package and build_package disagree on package {row[1]} (order #{row[0]}): {kind}: check -> {chk[:160]}; build -> {bld[:160]}", payload)
        if w[0] == "err":
            n_both_err += agree
            whole_err_stage[w[1]] += 1
            continue
        n_both_ok += agree
        # ---- behaviour
        o = d["out"]
        wg, wc = o.get("w.go"), o.get("w.core")
        if wg is None or wc is None or wg[0] in ("decode-error", "parse-error") or wc[0] in ("decode-error", "parse-error"):
            ctx.broken_ties.append(("dump decoder", f"{pid}: {wg and wg[0]} {wc and wc[0]}"))
            continue
        payload["whole_run"] = {"status": wg[0], "stdout": vlib.unesc(wg[1])[:400]}
        wvalid = gc.get(f"{pid}|w.go", ("ok",))[0]
        seen_idx = set()
        for s in d["sep"]:
            if s[2] != "ok":
                continue
            idx = s[3]
            n_text_equal += s[4] == "go-text-equal"
            n_text_differs += s[4] != "go-text-equal"
            if idx in seen_idx:
                continue
            seen_idx.add(idx)
            sg, sc = o.get(idx + ".go"), o.get(idx + ".core")
            if sg is None or sc is None:
                ctx.broken_ties.append(("sem driver", f"{pid}: missing result for {idx}"))
                continue
            n_beh += 1
            svalid = gc.get(f"{pid}|{idx}.go", ("ok",))[0]
            good = True
            if wvalid != svalid:
                good = False
                which = gc.get(f"{pid}|{idx}.go" if svalid == "err" else f"{pid}|w.go", ("", ""))[1]
                ctx.report({"oracle": "go-validity", "whole": wvalid, "separate": svalid, "code": which.split(" ")[0][:60]},
                           f"Go.Check accepts the Go of one way only (whole {wvalid}, separate {svalid}): {which[:160]}", payload)
            if wvalid == "ok" and svalid == "ok" and not any(x[0] == "fuel" for x in (wg, sg)):
                if (sg[0], sg[1]) != (wg[0], wg[1]):
                    good = False
                    ctx.report({"oracle": "behaviour", "level": "go", "kind": "stdout-differs" if sg[0] == wg[0] else f"ends-differently:{wg[0].split(':')[0]}->{sg[0].split(':')[0]}"},
                               f"the separately built program behaves differently (order {s[1]}): whole {wg[0]} {vlib.unesc(wg[1])[:80]!r}, separate {sg[0]} {vlib.unesc(sg[1])[:80]!r}",
                               dict(payload, separate_run={"status": sg[0], "stdout": vlib.unesc(sg[1])[:400]}))
            if not any(x[0] == "fuel" or x[0].startswith("stuck") for x in (wc, sc)):
                if (sc[0], sc[1]) != (wc[0], wc[1]):
                    good = False
                    ctx.report({"oracle": "behaviour", "level": "core", "kind": "stdout-differs" if sc[0] == wc[0] else "ends-differently"},
                               f"the linked Core behaves differently under Sem (order {s[1]}): whole {wc[0]}, separate {sc[0]}", payload)
            n_beh_ok += good
            distinct.add((vlib.unesc(wg[1]), len(d["stages"].get(idx + ".go", ""))))
            equiv_lines.append(f"{pid}|{idx}\t(equiv {d['stages'][idx + '.core']} {d['stages']['w.core']})")
            equiv_meta[f"{pid}|{idx}"] = (pid, s[1])
        if len(samples) < 3 and len(d["sep"]) > 1 and "generics" in (proj[1] if len(proj) > 1 else ""):
            samples.append({"id": pid, "tags": proj[1], "orders": [s[1] for s in d["sep"]], "whole_stdout": vlib.unesc(wg[1])[:200],
                            "go_text_equal_to_whole": [s[4] for s in d["sep"] if s[2] == "ok"]})
    # ---- exports -> interface JSON -> exports is the identity on what an importer's typer reads (every built package,
    #      accepted or not as a whole project)
    n_rt = n_rt_same = n_rt_nonempty = 0
    rt_entries = collections.Counter()
    for pid, d in progs.items():
        for row in d.get("rt", []):
            n_rt += 1
            n_rt_nonempty += row[3] != "0"
            rt_entries[min(int(row[3]), 10)] += 1
            if row[2] == "same":
                n_rt_same += 1
            else:
                ctx.report({"oracle": "exports-roundtrip", "kind": row[2].split(":")[0]},
                           f"the exports of package {row[1]} (order #{row[0]}) are not what an importer reads back from the .interface JSON: {row[2]}",
                           {"id": pid, "src": d.get("src", "")[:6000], "package": row[1], "verdict": row[2]})

    # ---- tie (link environment): the genv of both ways is Exports.applyAll of the packages' exports, lookup for lookup;
    #      the hypotheses of link_env_order_irrelevant (distinct keys per export map, no key exported twice differently) hold
    g0 = next((row[1] for row in progs.get("genv0", {}).get("genv", []) if row[0] == "0"), None)
    env_lines, n_env = [], 0
    if g0 is None and any("genv" in d for pid, d in progs.items() if pid != "genv0"):
        ctx.broken_ties.append(("harness", "no GENV 0 row (GlobalTypeEnv::new())"))
    for pid, d in progs.items():
        if pid == "genv0" or g0 is None:
            continue
        wrow = next((row[1] for row in d.get("genv", []) if row[0] == "w"), None)
        for row in d.get("genv", []):
            if row[0] == "s" and wrow is not None:
                # row[2] = ((pkg env)…) sep-genv
                inner = row[2][1:-1]
                depth, cut = 0, None
                for i, ch in enumerate(inner):
                    depth += ch == "("
                    depth -= ch == ")"
                    if depth == 0 and ch == ")":
                        cut = i + 1
                        break
                pkgs, sep = inner[:cut], inner[cut:].strip()
                env_lines.append(f"{pid}|env{row[1]}\t(linkenv {g0} {pkgs} {sep} {wrow})")
    env_res = run_model(ctx, env_lines) if env_lines else {}
    n_env_ok = n_env_same_order = 0
    env_keys = collections.Counter()
    for l in env_lines:
        key = l.split("\t", 1)[0]
        r = env_res.get(key)
        n_env += 1
        if not r or r[0] != "linkenv":
            ctx.broken_ties.append(("model driver c14 (linkenv)", f"{key}: {r}"))
        elif r[1] == "ok":
            n_env_ok += 1
            n_env_same_order += "same-iteration-order-as-separate=true" in r
            pk = next((int(f.split("=")[1]) for f in r if f.startswith("pkgkeys=")), 0)
            env_keys["0" if pk == 0 else "1-5" if pk <= 5 else "6-20" if pk <= 20 else ">20"] += 1
        else:
            ctx.broken_ties.append(("link environment ≠ Exports.applyAll of the packages' exports (or a hypothesis of link_env_order_irrelevant fails)",
                                    f"{key}: {r[1:5]}"))

    # ---- tie: the two Cores differ only by function order and per-function renaming of bound names
    res = run_model(ctx, equiv_lines) if equiv_lines else {}
    n_eq = n_eq_ok = n_in_fragment = n_verified_with_closures = 0
    why = collections.Counter()
    outside, outside_samples = collections.Counter(), []
    for key, (pid, order) in equiv_meta.items():
        r = res.get(key)
        n_eq += 1
        if not r:
            ctx.broken_ties.append(("model driver c14", f"{key}: no answer"))
            continue
        if r[0] == "equiv":
            n_eq_ok += 1
            if r[1] == "verified":
                n_in_fragment += 1
                n_verified_with_closures += any(f.startswith("with-closures=") and f != "with-closures=0" for f in r[2:])
            else:
                outside[r[2] if len(r) > 2 else "?"] += 1
                if len(outside_samples) < 5:
                    outside_samples.append({"pair": key, "why": r[2:]})
        else:
            why[r[1] if len(r) > 1 else r[0]] += 1
            ctx.broken_ties.append(("separate Core ≠ whole Core up to function order and bound-name renaming", f"{pid} order {order}: {r[:3]}"))

    if outside:
        ctx.notes.append(f"{sum(outside.values())} of {n_eq} Core pairs are outside the verified fragment (validate rejects, the structural comparison accepts): {dict(outside)}")
    ctx.violations.sort(key=lambda v: len(v[2].get("src") or "x" * 10**6))
    if ctx.replay:
        # vlib.Ctx has read the signature (and cleared replays/, where the file usually lives) before the run
        want = ctx.replay_signature
        if want is None:
            ctx.broken_ties.append(("replay file", f"{ctx.replay}: not readable or without a signature"))
        else:
            ctx.violations = [v for v in ctx.violations if v[0] == want]
            ctx.notes.append(f"replay: the whole seeded run is repeated; only violations with signature {want} are reported")
    cov = {
        "evaluations": n_orders, "distinct_nontrivial": len(distinct) + n_both_err,
        "rule": "one evaluation = one project built separately in one topological order (check + build of every package, artefacts written to and "
                "re-read from JSON, link) next to its whole-program compile; distinct = distinct (stdout, separate Go size) of accepted projects + "
                "rejected projects on which both ways agree",
        "projects": n_proj, "projects_by_kind": dict(kinds), "template_and_kind_tags": dict(tpl_tags), "generator_tags": dict(tags), "orders_per_project(sampled/total)": dict(order_hist),
        "accepted_both_ways": n_both_ok, "rejected_both_ways_same_stage": n_both_err,
        "behaviour_comparisons(distinct separate Go per project)": {"checked": n_beh, "same_as_whole(Go.Sem, Sem, Go.Check)": n_beh_ok},
        "go_text": {"separate_equal_to_whole": n_text_equal, "differs(only order/temporaries, see tie)": n_text_differs},
        "check_vs_build_interface": {"packages_checked": n_iface, "same_bytes": n_iface_same,
                                     "rejected_by_both_same_stage_same_diagnostics": n_iface_both_err, "of_which_by_stage": dict(iface_err_stage),
                                     "accepted_by_check_rejected_by_match_compilation_in_build": n_iface_compile_only,
                                     "verdicts": dict(iface_verdicts)},
        "whole_program_rejections_by_stage": dict(whole_err_stage),
        "tie_link_environment": {"pairs(project x link order, <= 2 per project)": n_env, "model_agrees_with_both_ways_on_every_lookup": n_env_ok,
                                 "of_which_same_iteration_order_as_the_separate_link": n_env_same_order,
                                 "keys_exported_by_the_packages_themselves(builtins not counted)_per_project": dict(env_keys)},
        "exports_roundtrip_through_interface_json": {"packages": n_rt, "identity": n_rt_same, "with_at_least_one_export_of_its_own": n_rt_nonempty,
                                                     "own_exported_entries_per_package(builtins not counted; capped at 10)": {str(k): v for k, v in sorted(rt_entries.items())}},
        "tie_core_equivalence": {"pairs": n_eq, "equal_up_to_order_and_renaming": n_eq_ok, "inside_verified_fragment(separate_eq_whole_validated applies)": n_in_fragment,
                                 "of_which_with_closure_expressions": n_verified_with_closures,
                                 "outside(only the unverified structural comparison accepts), by reason": dict(outside),
                                 "outside_samples": outside_samples,
                                 "failures": dict(why)},
        "model_diffs": (n_eq - n_eq_ok) + (n_env - n_env_ok),
        "impl_oracle_failures": len(ctx.violations) + sum(h["count"] for h in ctx.known_hits),
        "samples": samples,
    }
    ctx.assumptions += [
        "behaviour is judged under Sem / Go.Sem (no Go toolchain); goroutines under the eager schedule",
        "separate_eq_whole_validated / run_alpha_invariant cover Core with closure expressions (value relation Alpha.VRel); a pair outside the verified "
        "fragment (coverage.tie_core_equivalence.outside…) is compared structurally only and its equality of behaviour is observed, not proved",
        "templates (harness/src/c14.rs::templates): types-only / trait-only / extern-only / empty packages, nesting depth 60 / 200 (1000 in the thorough tier) "
        "of lets, ifs and parentheses, the same function / type / trait name in two files of a package, self-imports and import cycles (the separate builds "
        "then run in an order read off the import lines), a main.gom that is not the first file; nested calls only to depth 10 (compile time doubles per level, both ways)",
        "topological orders: all of them in the thorough tier (<= 120), a seeded sample of 6 in the quick tier",
        "lookup-visibility catalogue (harness/src/c14.rs::lookup_visibility_projects): every type-directed lookup the typer performs in 'the environments of the "
        "dependencies' (field, field of a generic struct, inherent method, Trait::m(v), method syntax, trait bound, dyn coercion, match) on a value the user package "
        "only receives from another package (call result, let, closure parameter) x owner of the type imported by the user's file / only by a sibling file / reachable "
        "only through an import of an import x impl beside the type / beside the trait x user = Main / a library; nothing is expected of a project except that both "
        "pipelines agree (isolation itself is C16's business); c16-world: the first 60 (thorough 600) C16 worlds with intact directories and at least one placement",
        "late-diagnostic catalogue (harness/src/c14.rs::late_diagnostic_projects): every diagnostic match compilation can raise from source text (integer-literal "
        "match without a catch-all arm on each integer type, the literal nested in a variant payload / tuple / struct pattern, the match inside a closure / let in an "
        "arm / generic fn / inherent method / trait impl; an inherent or generic inherent method used as a value or argument; the matched value or the method owned by "
        "an imported package) + 3 accepted controls x entry file / sibling of it / library file / sibling library file; entry-point catalogue (entry_point_projects): "
        "main in the entry file / a sibling file / only a library / only as an inherent method / only as an extern / nowhere, main with a parameter / result / type "
        "parameter; check-vs-build: diagnostics are compared as sorted lists of message classes (type-variable numbers and paths normalised), the diagnostics "
        "excused as 'match compilation' are the format strings next to Stage::other(\"compile\") in compile_match.rs, read on every run",
    ]
    tb = ["Lean 4 kernel", "axioms: " + ",".join(ctx.proof["axioms"] or ["none"]), "Sem / Go.Sem / Go.Check", "harness/src/c14.rs, c13.rs (project generator), dump.rs, godump.rs",
          "tools/props/c14.py"]
    return ctx.finish("proof", cov, tb, "lake build GomlVerif.Props.C14 && lake env lean Axioms.lean (#print axioms)")
