"""C15 — linking never mixes interfaces (proof over histories + history correspondence)."""
import os, re
import vlib

def strip(res):
    return [re.sub(r"\s*«.*?»", "", r).strip() for r in res.split(" | ")]

def ops_of(sexp):
    m = re.search(r"\(ops (.*)\)\)$", sexp)
    return re.findall(r"\(([^()]*)\)", m.group(1)) if m else []

def run(ctx):
    ctx.extract()
    ctx.build_lean(["GomlVerif.Props.C15"])
    if not ctx.build_harness():
        return ctx.finish("proof", {"evaluations": 0, "distinct_nontrivial": 0}, [], "lake build")
    ok, out = ctx.gv("c15")
    rows = vlib.read_tsv(os.path.join(ctx.run_dir, "c15.cases.tsv")) if ok else []
    cases = [r for r in rows if len(r) >= 4 and r[1] == "CASE"]
    model = ctx.model("c15", [f"{r[0]}\t{r[2]}" for r in cases]) if cases and os.path.exists(vlib.MODEL) else {}
    n_eq = 0
    n_pinned = n_stale_links = n_ok_links = 0
    families = {}
    opcount, outcomes = {}, {}
    distinct = set()
    samples = []
    for r in cases:
        cid, sexp, real_raw = r[0], r[2], vlib.unesc(r[3])
        fam = ":".join(cid.split(":")[:2]) if cid.startswith("cat:") else "gen"
        families[fam] = families.get(fam, 0) + 1
        real = strip(real_raw)
        pred = (model.get(cid) or [""])[0].split(" | ")
        ops = ops_of(sexp)
        for o, res in zip(ops, real):
            opcount[o.split()[0]] = opcount.get(o.split()[0], 0) + 1
            key = o.split()[0] + ":" + " ".join(res.split()[:2] if res.startswith("err") else res.split()[:1])
            outcomes[key] = outcomes.get(key, 0) + 1
        links = [res for o, res in zip(ops, real) if o.startswith("link")]
        if any(x == "ok" for x in links) or any(x.startswith("err stale") for x in links):
            distinct.add(sexp)
        if len(samples) < 2:
            samples.append({"id": cid, "history": sexp, "observed": real, "predicted": pred})
        # property oracle, independent of the model: an artefact altered after it was written
        # must not take part in a successful check/build/link
        imports = {m.split()[0]: m.split()[1:] for m in re.findall(r"\(([A-Za-z ]+)\)", re.search(r"\(imports (.*?)\) \(ops", sexp).group(1))}
        t_iface, t_core = {}, {}
        for i, (o, res) in enumerate(zip(ops, real)):
            w = o.split()
            if w[0] == "corrupt-iface" and res == "ok" and w[1] not in t_iface:
                t_iface[w[1]] = w[2]
            elif w[0] == "corrupt-core" and res == "ok" and w[1] not in t_core:
                t_core[w[1]] = w[2]
            elif w[0] == "foreign-iface" and res == "ok":
                t_iface[w[1]] = "written-by-other-version"
            elif w[0] in ("check", "build"):
                bad = [d for d in imports.get(w[1], []) if d in t_iface]
                if res.startswith("ok"):
                    if bad:
                        ctx.report({"oracle": "altered-artifact", "kind": "interface-accepted", "field": t_iface[bad[0]]},
                                   f"{w[0]} accepts a dependency interface file altered in `{t_iface[bad[0]]}`",
                                   {"id": cid, "history": sexp, "op_index": i, "op": o, "observed_all": real_raw})
                    t_iface.pop(w[1], None)
                    if w[0] == "build":
                        t_core.pop(w[1], None)
            elif w[0] == "link" and res == "ok":
                bad = [p for p in w[1:] if p in t_core]
                if bad:
                    ctx.report({"oracle": "altered-artifact", "kind": "core-accepted", "field": t_core[bad[0]]},
                               f"link accepts a core file altered in `{t_core[bad[0]]}`",
                               {"id": cid, "history": sexp, "op_index": i, "op": o, "observed_all": real_raw})
        # second property oracle, independent of the model: staleness judged from the implementation's OWN
        # outputs. Every successful check/build prints the identity of the interface hash it wrote, so the
        # hash each core pinned for each import (what its dependency's interface file said when it was built)
        # and the hash each core exports are known without any model. A link that succeeds although some
        # import edge p -> d among its inputs pins another hash than d's core exports (or d is not among the
        # inputs) violates the property, wherever the edge sits in the graph and whatever the packages are
        # called. Only histories whose artefacts are never altered by hand (no corrupt-*/foreign-* operation).
        if not any(o.split()[0] in ("corrupt-iface", "corrupt-core", "foreign-iface") for o in ops):
            n_pinned += 1
            iface_h, core_h, pinned = {}, {}, {}
            for i, (o, res) in enumerate(zip(ops, real)):
                w = o.split()
                if w[0] in ("check", "build") and res.startswith("ok"):
                    hid = res.split()[1]
                    if w[0] == "build":
                        pinned[w[1]] = {d: iface_h.get(d) for d in imports.get(w[1], [])}
                        core_h[w[1]] = hid
                    iface_h[w[1]] = hid
                elif w[0] == "link":
                    ps = w[1:]
                    if any(p not in core_h for p in ps):
                        continue
                    stale_edges = [(p, d) for p in ps for d in imports.get(p, [])
                                   if d not in ps or pinned[p].get(d) != core_h[d]]
                    wellformed = len(ps) > 0 and len(set(ps)) == len(ps) and "Main" in ps
                    if res == "ok" and stale_edges:
                        p, d = stale_edges[0]
                        ctx.report({"oracle": "pinned-hash", "kind": "link-accepts-stale-or-missing-dependency"},
                                   f"link succeeds although {p} was built against interface {pinned[p].get(d)} of {d} and the linked {d} exports "
                                   f"{core_h.get(d, 'nothing (not among the inputs)')} (hash identities as printed by the builds themselves)",
                                   {"id": cid, "history": sexp, "op_index": i, "op": o, "stale_import_edges": [f"{a}->{b}" for a, b in stale_edges],
                                    "pinned": pinned.get(p), "exported_now": {x: core_h.get(x) for x in ps}, "observed_all": real_raw})
                    elif res.startswith("err stale") or res.startswith("err missing-dep"):
                        n_stale_links += 1
                        if wellformed and not stale_edges:
                            ctx.report({"oracle": "pinned-hash", "kind": "rejects-consistent-set"},
                                       "link refuses a set of cores as stale although every import edge pins exactly the hash its dependency exports",
                                       {"id": cid, "history": sexp, "op_index": i, "op": o, "observed_all": real_raw})
                    if res == "ok":
                        n_ok_links += 1
        if pred == real:
            n_eq += 1
            continue
        # first divergent operation; classify against the property
        i = next((k for k, (a, b) in enumerate(zip(pred, real)) if a != b), min(len(pred), len(real)))
        op = ops[i] if i < len(ops) else "?"
        exp, got = (pred[i] if i < len(pred) else "?"), (real[i] if i < len(real) else "?")
        prefix = ops[:i + 1]
        payload = {"id": cid, "history": sexp, "first_divergent_op": op, "index": i, "model_predicts": exp,
                   "implementation": got, "observed_all": real_raw}
        kind = None
        if got.startswith("ok") and exp.startswith("err"):
            why = exp.split()[1] if len(exp.split()) > 1 else "?"
            if any(o.startswith("foreign-iface") for o in prefix) and why == "bad-interface":
                kind = "foreign-version-interface-accepted"
            elif why in ("stale", "missing-dep"):
                kind = "link-accepts-stale-or-missing-dependency"
            elif why in ("invalid-core", "bad-interface"):
                kind = "altered-artifact-accepted"
            else:
                kind = "accepts-what-must-be-rejected:" + why
        elif got.startswith("ok") and exp.startswith("ok") and op.split()[0] in ("build", "check"):
            kind = "interface-hash-pattern-differs(body-edit-changes-hash-or-interface-edit-does-not)"
        elif got.startswith("err") and exp.startswith("ok"):
            kind = "rejects-consistent-set:" + (got.split()[1] if len(got.split()) > 1 else "?")
        else:
            kind = "different-error-class"
        if kind == "different-error-class" or kind.startswith("rejects-consistent-set:other"):
            ctx.broken_ties.append(("history correspondence", f"{cid}: op {i} `{op}` model={exp} impl={got}"))
        else:
            ctx.report({"oracle": "history", "kind": kind}, f"history outcome contradicts the property: {kind}", payload)
    ctx.violations.sort(key=lambda v: len(v[2].get("history", "")))
    cov = {
        "evaluations": len(cases), "distinct_nontrivial": len(distinct),
        "rule": "one case = one history of edit/check/build/link/corrupt/foreign operations over a 2-6 package DAG (7 fixed graphs; every labelled graph over Main + 3 packages; seeded samples over Main + 4 / 5 packages) executed on the real "
                "check_package/build_package/read_core/link_cores with artefacts as JSON files; non-trivial = contains a link that succeeds "
                "or a link rejected as stale; distinct by history text",
        "samples": samples, "histories_equal": n_eq, "operations": opcount, "outcomes": outcomes,
        "model_diffs": len(cases) - n_eq, "impl_oracle_failures": len(ctx.violations),
        "families": families,
        "pinned_hash_oracle": {"histories_judged": n_pinned, "links_accepted_with_every_edge_current": n_ok_links,
                               "links_refused_as_stale_or_missing": n_stale_links},
    }
    ctx.assumptions += [
        "H (SHA-256 over serde_json of the hash view) is injective — hypothesis of every theorem, not an axiom",
        "interface-visible edits are drawn from a catalogue of 15 variants of items no dependent uses (signature, field, variant, trait method, impl, item added/removed, return type, inherent impl, and four pairs that differ only in the ORDER of struct fields, enum variants, trait methods, parameter types)",
        "an artefact is corrupted in at most one field between two rewrites",
        "graphs: 7 fixed ones; every labelled import graph over Main + 3 packages (cat:names: 25 DAGs x 8 import sets of Main, names on both sides of `Main` in sort order) and seeded samples over Main + 4 / + 5 packages (cat:names5/6), each with one edge-sweep history (every import edge q -> p in turn: q the only stale package, link refused; q rebuilt, link accepted; link inputs in dependency / reverse / name order); Main is never imported; beyond Main + 3 the graphs are sampled",
        "the model-free `pinned-hash` oracle judges staleness from the hash identities printed by the builds themselves, on histories without hand-altered artefacts",
        "version fields are altered in both directions (`format_version`/`compiler_abi`: +1 / +6, and `.older`: the next smaller number) at top level of a core, inside its embedded interface and in an interface file; a consistently re-hashed interface of another version is tried for 7 (format_version, compiler_abi) pairs on either side of the current ones; in the `cat:iface-read` / `cat:foreign` catalogues every direct dependent checks and builds against the altered file before anything rewrites it",
    ]
    tb = ["Lean 4 kernel", "axioms: " + ",".join(ctx.proof["axioms"] or ["none"]),
          "harness/src/c15.rs (source templates, JSON mutation, error-message classification)", "tools/props/c15.py"]
    return ctx.finish("proof", cov, tb, "lake build GomlVerif.Props.C15 && #print axioms")
