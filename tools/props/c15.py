"""C15 — linking never mixes interfaces (proof over histories + history correspondence)."""
import os, re
import vlib

def strip(res):
    return [re.sub(r"\s*«.*?»", "", r).strip() for r in res.split(" | ")]

def ops_of(sexp):
    m = re.search(r"\(ops (.*)\)\)$", sexp)
    return re.findall(r"\(([^()]*)\)", m.group(1)) if m else []

def run(ctx):
    ctx.extract()
    ctx.build_lean(["GomlVerif.Props.C15"])
    if not ctx.build_harness():
        return ctx.finish("proof", {"evaluations": 0, "distinct_nontrivial": 0}, [], "lake build")
    ok, out = ctx.gv("c15")
    rows = vlib.read_tsv(os.path.join(ctx.run_dir, "c15.cases.tsv")) if ok else []
    cases = [r for r in rows if len(r) >= 4 and r[1] == "CASE"]
    model = ctx.model("c15", [f"{r[0]}\t{r[2]}" for r in cases]) if cases and os.path.exists(vlib.MODEL) else {}
    n_eq = 0
    opcount, outcomes = {}, {}
    distinct = set()
    samples = []
    for r in cases:
        cid, sexp, real_raw = r[0], r[2], vlib.unesc(r[3])
        real = strip(real_raw)
        pred = (model.get(cid) or [""])[0].split(" | ")
        ops = ops_of(sexp)
        for o, res in zip(ops, real):
            opcount[o.split()[0]] = opcount.get(o.split()[0], 0) + 1
            key = o.split()[0] + ":" + " ".join(res.split()[:2] if res.startswith("err") else res.split()[:1])
            outcomes[key] = outcomes.get(key, 0) + 1
        links = [res for o, res in zip(ops, real) if o.startswith("link")]
        if any(x == "ok" for x in links) or any(x.startswith("err stale") for x in links):
            distinct.add(sexp)
        if len(samples) < 2:
            samples.append({"id": cid, "history": sexp, "observed": real, "predicted": pred})
        # property oracle, independent of the model: an artefact altered after it was written
        # must not take part in a successful check/build/link
        imports = {m.split()[0]: m.split()[1:] for m in re.findall(r"\(([A-Za-z ]+)\)", re.search(r"\(imports (.*?)\) \(ops", sexp).group(1))}
        t_iface, t_core = {}, {}
        for i, (o, res) in enumerate(zip(ops, real)):
            w = o.split()
            if w[0] == "corrupt-iface" and res == "ok" and w[1] not in t_iface:
                t_iface[w[1]] = w[2]
            elif w[0] == "corrupt-core" and res == "ok" and w[1] not in t_core:
                t_core[w[1]] = w[2]
            elif w[0] == "foreign-iface" and res == "ok":
                t_iface[w[1]] = "written-by-other-version"
            elif w[0] in ("check", "build"):
                bad = [d for d in imports.get(w[1], []) if d in t_iface]
                if res.startswith("ok"):
                    if bad:
                        ctx.report({"oracle": "altered-artifact", "kind": "interface-accepted", "field": t_iface[bad[0]]},
                                   f"{w[0]} accepts a dependency interface file altered in `{t_iface[bad[0]]}`",
                                   {"id": cid, "history": sexp, "op_index": i, "op": o, "observed_all": real_raw})
                    t_iface.pop(w[1], None)
                    if w[0] == "build":
                        t_core.pop(w[1], None)
            elif w[0] == "link" and res == "ok":
                bad = [p for p in w[1:] if p in t_core]
                if bad:
                    ctx.report({"oracle": "altered-artifact", "kind": "core-accepted", "field": t_core[bad[0]]},
                               f"link accepts a core file altered in `{t_core[bad[0]]}`",
                               {"id": cid, "history": sexp, "op_index": i, "op": o, "observed_all": real_raw})
        if pred == real:
            n_eq += 1
            continue
        # first divergent operation; classify against the property
        i = next((k for k, (a, b) in enumerate(zip(pred, real)) if a != b), min(len(pred), len(real)))
        op = ops[i] if i < len(ops) else "?"
        exp, got = (pred[i] if i < len(pred) else "?"), (real[i] if i < len(real) else "?")
        prefix = ops[:i + 1]
        payload = {"id": cid, "history": sexp, "first_divergent_op": op, "index": i, "model_predicts": exp,
                   "implementation": got, "observed_all": real_raw}
        kind = None
        if got.startswith("ok") and exp.startswith("err"):
            why = exp.split()[1] if len(exp.split()) > 1 else "?"
            if any(o.startswith("foreign-iface") for o in prefix) and why == "bad-interface":
                kind = "foreign-version-interface-accepted"
            elif why in ("stale", "missing-dep"):
                kind = "link-accepts-stale-or-missing-dependency"
            elif why in ("invalid-core", "bad-interface"):
                kind = "altered-artifact-accepted"
            else:
                kind = "accepts-what-must-be-rejected:" + why
        elif got.startswith("ok") and exp.startswith("ok") and op.split()[0] in ("build", "check"):
            kind = "interface-hash-pattern-differs(body-edit-changes-hash-or-interface-edit-does-not)"
        elif got.startswith("err") and exp.startswith("ok"):
            kind = "rejects-consistent-set:" + (got.split()[1] if len(got.split()) > 1 else "?")
        else:
            kind = "different-error-class"
        if kind == "different-error-class" or kind.startswith("rejects-consistent-set:other"):
            ctx.broken_ties.append(("history correspondence", f"{cid}: op {i} `{op}` model={exp} impl={got}"))
        else:
            ctx.report({"oracle": "history", "kind": kind}, f"history outcome contradicts the property: {kind}", payload)
    ctx.violations.sort(key=lambda v: len(v[2].get("history", "")))
    cov = {
        "evaluations": len(cases), "distinct_nontrivial": len(distinct),
        "rule": "one case = one history of edit/check/build/link/corrupt/foreign operations over a 2-3 package DAG executed on the real "
                "check_package/build_package/read_core/link_cores with artefacts as JSON files; non-trivial = contains a link that succeeds "
                "or a link rejected as stale; distinct by history text",
        "samples": samples, "histories_equal": n_eq, "operations": opcount, "outcomes": outcomes,
        "model_diffs": len(cases) - n_eq, "impl_oracle_failures": len(ctx.violations),
    }
    ctx.assumptions += [
        "H (SHA-256 over serde_json of the hash view) is injective — hypothesis of every theorem, not an axiom",
        "interface-visible edits are drawn from a catalogue of 15 variants of items no dependent uses (signature, field, variant, trait method, impl, item added/removed, return type, inherent impl, and four pairs that differ only in the ORDER of struct fields, enum variants, trait methods, parameter types)",
        "an artefact is corrupted in at most one field between two rewrites",
        "version fields are altered in both directions (`format_version`/`compiler_abi`: +1 / +6, and `.older`: the next smaller number) at top level of a core, inside its embedded interface and in an interface file; a consistently re-hashed interface of another version is tried for 7 (format_version, compiler_abi) pairs on either side of the current ones; in the `cat:iface-read` / `cat:foreign` catalogues every direct dependent checks and builds against the altered file before anything rewrites it",
    ]
    tb = ["Lean 4 kernel", "axioms: " + ",".join(ctx.proof["axioms"] or ["none"]),
          "harness/src/c15.rs (source templates, JSON mutation, error-message classification)", "tools/props/c15.py"]
    return ctx.finish("proof", cov, tb, "lake build GomlVerif.Props.C15 && #print axioms")
