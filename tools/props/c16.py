"""C16 — packages are isolated by imports; trait implementations are coherent.

proof      Props/C16.lean over Model/Visibility.lean + Model/Graph.lean.
tie (L1)   generated worlds (package layout × placements of qualified references and impls): the real
           whole-program `pipeline::compile` and the model must agree on accept / reject, on the graph error
           (class and names) and on the set of diagnostic classes {not-imported, unresolved, orphan, inherent-nonlocal,
           dup-local, dup-cross} (`Internal error` follow-ups count as `unresolved`).
oracle     independent of the model, straight from the property text: a world in which a reachable package
           names a package it does not import, declares an orphan or duplicate impl, or whose reachable graph
           has a cycle / missing / misdeclared directory MUST be rejected by the real compiler; the three copies
           of every world (directories created in different orders, fresh hash keys) must give the same verdict
           and the same diagnostics.
entry points   `pipeline.rs` builds a package's dependency environments in two copies of one loop: `typecheck_packages`
           (behind `compile` and `typecheck_with_packages`) and the editor twin `typecheck_with_packages_and_results`
           (behind hover / completions of every file with an import).  Every world, and every project of the C14 visibility
           catalogues (lookup forms × owner of the type × user; use forms × who imports), goes through all of them
           (harness/src/c16e.rs, `c16.ep.tsv`): the verdict class must equal `compile`'s (oracle `entry-points-agree`,
           model-free), the must-reject oracle is applied to each entry point's verdict, and the model is diffed against each.
"""
import os, re
import vlib


def parse_sexp(s):
    toks = re.findall(r'\(|\)|"[^"]*"|[^\s()]+', s)
    pos = 0

    def rd():
        nonlocal pos
        t = toks[pos]; pos += 1
        if t == "(":
            out = []
            while toks[pos] != ")":
                out.append(rd())
            pos += 1
            return out
        return t.strip('"')
    return rd()


def oracle(world):
    """reasons why the property demands a rejection (empty list = nothing forbids acceptance)"""
    pk = {}
    for p in world[1:]:
        name, st, imports, items = p[0], p[1], p[2][1:], p[3][1:]
        pk[name] = {"state": st, "imports": imports, "items": items}
    reasons = []
    # reachable packages and the state of their directories
    seen, todo, order = set(), ["Main"], []
    while todo:
        q = todo.pop()
        if q in seen:
            continue
        seen.add(q)
        if q not in pk or pk[q]["state"][0] == "missing":
            reasons.append(("graph", f"missing-package {q}"))
            continue
        if pk[q]["state"][0] == "declares":
            reasons.append(("graph", f"misdeclared {q}"))
            continue
        if pk[q]["state"][0] == "file-mismatch":
            reasons.append(("graph", f"inconsistent-directory {q}"))
            continue
        order.append(q)
        todo.extend(pk[q]["imports"])
    if reasons:
        return reasons, order
    # cycle among reachable packages
    color = {}

    def dfs(q):
        color[q] = 1
        for d in pk[q]["imports"]:
            if color.get(d) == 1:
                return True
            if d not in color and dfs(d):
                return True
        color[q] = 2
        return False
    if any(q not in color and dfs(q) for q in order):
        return [("graph", "import-cycle")], order
    keys = {}
    for q in order:
        keys.setdefault((q, "nom", q, "-", "S"), []).append(q)
        for it in pk[q]["items"]:
            imps = pk[q]["imports"] if it[1] == "0" else []
            if it[0] == "use":
                form, target = it[2], it[3]
                via = it[5] if len(it) > 5 else "-"
                # the roots of the paths the use writes down: whatever the length of a path (`P::f`, `P::S::f`,
                # `P::T::m`), its root must be the package itself or one of its imports; `flow` only handles a value
                # whose type lives in `target` and names nothing but `via`
                roots = {"flow": [via], "sself": [via, target]}.get(form, [target])
                bad_root = next((n for n in roots if n != q and n not in imps), None)
                if bad_root is not None:
                    reasons.append(("isolation", f"{q} names {bad_root} ({form}) without importing it"))
                elif form == "unq" and target != q:
                    reasons.append(("isolation", f"{q} names an item of {target} without qualification"))
                elif form == "nofn":
                    reasons.append(("missing-item", f"{q} names an item {target} does not have"))
                elif form == "fn" and it[4] == "q" and q == "Main":
                    reasons.append(("missing-item", "Main::x is not how Main names its own items"))
            else:
                # (impl file kind trait-owner shape head arg which)
                kind, tr, shape, head, arg, which = it[2], it[3], it[4], it[5], it[6], it[7]
                named = ([tr] if kind == "trait" else []) + [n for n in (head, arg) if n not in ("-", "int32")]
                bad = False
                for n in named:
                    if n != q and n not in imps:
                        reasons.append(("isolation", f"{q} names {n} in an impl without importing it"))
                        bad = True
                if bad:
                    continue
                # the package the target type belongs to: the owner of its outermost nominal type; Vec, Ref,
                # tuples, arrays, function types, `dyn` and primitives belong to no user package
                owner = head if shape in ("nom", "gen") else None
                what = f"{shape}(head={head},arg={arg})"
                if kind == "inherent":
                    if owner != q:
                        reasons.append(("inherent-nonlocal", f"{q}: inherent impl for {what}, a type that is not its own"))
                    continue
                if tr != q and owner != q:
                    reasons.append(("orphan", f"{q}: impl {tr}::T for {what}: neither the trait nor the type is its own"))
                    continue
                keys.setdefault((tr, shape, head, arg, which), []).append(q)
    for k, owners in keys.items():
        if len(owners) > 1:
            reasons.append(("duplicate-impl", f"impl {k[0]}::T for {k[1]}(head={k[2]},arg={k[3]},{k[4]}) declared in {owners}"))
    return reasons, order


def norm_real(r):
    """`internal` (an `Internal error:` follow-up of an unresolved name) counts as unresolved"""
    if not r.startswith("(reject") or "(graph" in r:
        return r
    ws = r.strip("()").split()[1:]
    ws = sorted(set("unresolved" if w == "internal" else w for w in ws))
    return "(reject " + " ".join(ws) + ")"


ENTRY_POINTS = ["typecheck_with_packages", "typecheck_with_packages_and_results", "typecheck_with_packages_and_results(second file of Main)"]


def verdict_kind(v):
    if v == "(accept)":
        return "accept"
    if "(graph" in v:
        return "graph-error"
    if v.startswith("(panic") or v.startswith("(thread-panic"):
        return "panic"
    return "diagnostics"


def entry_points(ctx, model, why_of):
    """rows of c16.ep.tsv: id EP kind payload compile twp editor editor-alt alt-file raw×4 files"""
    path = os.path.join(ctx.run_dir, "c16.ep.tsv")
    rows = [r for r in (vlib.read_tsv(path) if os.path.exists(path) else []) if len(r) >= 9 and r[1] == "EP"]
    stats = {"projects": len(rows), "by_kind": {}, "agree": {e: 0 for e in ENTRY_POINTS}, "compared": {e: 0 for e in ENTRY_POINTS},
             "backend_only_diagnostics": 0, "verdict_classes": {}, "model_equal": {e: 0 for e in ENTRY_POINTS[:2]},
             "model_compared": 0, "rejected_for_isolation_by_every_entry_point": 0}
    tie_diffs = []
    for r in rows:
        r = r + [""] * (14 - len(r))
        cid, kind, payload, alt = r[0], r[2], r[3], r[8]
        comp = norm_real(r[4])
        others = [norm_real(r[5]), norm_real(r[6]), norm_real(r[7]) if alt != "-" else None]
        stats["by_kind"][kind] = stats["by_kind"].get(kind, 0) + 1
        vk = verdict_kind(comp)
        stats["verdict_classes"][vk] = stats["verdict_classes"].get(vk, 0) + 1
        why = why_of.get(cid) or []
        all_reject = comp != "(accept)"
        for e, v, raw in zip(ENTRY_POINTS, others, (r[10], r[11], r[12])):
            if v is None:
                continue
            stats["compared"][e] += 1
            ename = e if e != ENTRY_POINTS[2] else f"{ENTRY_POINTS[1]} (entry file {alt})"
            if v == "(accept)":
                all_reject = False
            if v.startswith("(panic") or v.startswith("(thread-panic"):
                ctx.report({"oracle": "panic", "kind": "entry-point-panics", "entry": e}, f"{ename} panics instead of reporting an error",
                           {"id": cid, "kind": kind, "world": payload, "observed": v, "files": vlib.unesc(r[13])})
                continue
            # the property, applied to what THIS entry point says
            if why and v == "(accept)":
                ctx.report({"oracle": "must-reject", "kind": "accepts-" + why[0][0], "entry": e},
                           f"{ename} accepts a project the property forbids: {why[0][1]}",
                           {"id": cid, "world": payload, "reasons": [w[1] for w in why], "observed": v, "compile": comp,
                            "compile_diagnostics": vlib.unesc(r[9])[:600], "files": vlib.unesc(r[13])})
            if v == comp:
                stats["agree"][e] += 1
                continue
            if comp.startswith("(reject (graph (err other") and v == "(accept)":
                # a diagnostic of match compilation: a stage the type-check entry points do not run
                stats["backend_only_diagnostics"] += 1
                stats["agree"][e] += 1
                continue
            a, b = verdict_kind(comp), verdict_kind(v)
            dk = ("accepts-what-compile-rejects" if b == "accept" else "rejects-what-compile-accepts" if a == "accept"
                  else "other-graph-error" if a == b == "graph-error" else "other-diagnostic-classes" if a == b else f"{a}-vs-{b}")
            iso = "not imported" in vlib.unesc(r[9]) or any(k == "isolation" for k, _ in why)
            ctx.report({"oracle": "entry-points-agree", "entry": e, "kind": dk},
                       f"{ename} says {v} where compile says {comp} for the same project"
                       + (" — import isolation depends on the entry point" if iso else ""),
                       {"id": cid, "kind": kind, "world": payload, "compile": comp, "entry_point": ename, "entry_point_verdict": v,
                        "compile_diagnostics": vlib.unesc(r[9])[:800], "entry_point_diagnostics": vlib.unesc(raw)[:800],
                        "property_demands_rejection_because": [w[1] for w in why], "files": vlib.unesc(r[13])})
        if all_reject and any(k == "isolation" for k, _ in why):
            stats["rejected_for_isolation_by_every_entry_point"] += 1
        # the model against every entry point (worlds only)
        if kind == "world" and cid in model:
            pred = model[cid][0]
            stats["model_compared"] += 1
            for e, v in zip(ENTRY_POINTS[:2], others[:2]):
                if v == pred:
                    stats["model_equal"][e] += 1
                else:
                    tie_diffs.append((e, cid, payload, v, pred))
    for e, cid, payload, v, pred in tie_diffs[:10]:
        ctx.broken_ties.append((f"world correspondence ({e})", f"{cid}: {payload} impl={v} model={pred}"))
    stats["model_diffs"] = len(tie_diffs)
    if not rows:
        ctx.broken_ties.append(("entry points", "c16.ep.tsv is missing or empty: no world went through the editor entry point"))
    return stats


def run(ctx):
    import time
    t0 = time.time()
    ctx.extract()
    ctx.build_lean(["GomlVerif.Props.C16"])
    t1 = time.time()
    if not ctx.build_harness():
        return ctx.finish("proof", {"evaluations": 0, "distinct_nontrivial": 0}, [], "lake build")
    t2 = time.time()
    ok, out = ctx.gv("c16")
    t3 = time.time()
    rows = vlib.read_tsv(os.path.join(ctx.run_dir, "c16.cases.tsv")) if ok else []
    cases = [r for r in rows if len(r) >= 6 and r[1] == "CASE"]
    model = ctx.model("c16", [f"{r[0]}\t{r[2]}" for r in cases]) if cases and os.path.exists(vlib.MODEL) else {}
    t4 = time.time()
    n_eq, shapes, outcomes, placements, reasons_count = 0, {}, {}, {}, {}
    samples, distinct, internal_followups = [], set(), 0
    n_transitive_reachable = 0
    flow_transitive = {}
    name_relations = {}
    diffs = []
    why_of = {}
    for r in cases:
        cid, sexp, real_raw, shape, same = r[0], r[2], r[3], r[4], r[5]
        msgs = vlib.unesc(r[6]) if len(r) > 6 else ""
        real = norm_real(real_raw)
        if "internal" in real_raw:
            internal_followups += 1
        pred = (model.get(cid) or ["<no model output>"])[0]
        shapes[shape] = shapes.get(shape, 0) + 1
        # package names: is some package's name a proper prefix of another's (or equal up to case)?
        pnames = [x[0] for x in parse_sexp(sexp)[1:]]
        related = [(a, b) for a in pnames for b in pnames if a != b and (b.startswith(a) or a.lower() == b.lower())]
        if related:
            name_relations["worlds_with_prefix_or_case_related_packages"] = name_relations.get("worlds_with_prefix_or_case_related_packages", 0) + 1
            for q in parse_sexp(sexp)[1:]:
                for it in q[3][1:]:
                    if it[0] == "impl":
                        named = [n for n in (it[3], it[5], it[6]) if n not in ("-", "int32")]
                        if any((q[0], n) in related or (n, q[0]) in related for n in named):
                            name_relations["impls_across_a_related_pair"] = name_relations.get("impls_across_a_related_pair", 0) + 1
                    elif (q[0], it[3]) in related or (it[3], q[0]) in related:
                        name_relations["uses_across_a_related_pair"] = name_relations.get("uses_across_a_related_pair", 0) + 1
        oc = "accept" if real == "(accept)" else ("reject graph " + real.split()[3].strip("()") if "(graph" in real else real.strip("()"))
        outcomes[oc] = outcomes.get(oc, 0) + 1
        world = parse_sexp(sexp)
        why, reach = oracle(world)
        why_of[cid] = why
        for p in world[1:]:
            rel_imps = p[2][1:]
            for it in p[3][1:]:
                if it[0] == "use":
                    if it[3] == p[0]:
                        rel = "own"
                    elif it[3] in rel_imps:
                        rel = "imported"
                    else:
                        # transitive-only (an import of an import …), a package that exists but is not imported, or none
                        by = {x[0]: x for x in world[1:]}
                        seen_t, todo_t = set(), list(rel_imps)
                        while todo_t:
                            x = todo_t.pop()
                            if x in seen_t or x not in by:
                                continue
                            seen_t.add(x)
                            todo_t.extend(by[x][2][1:])
                        rel = "transitive-only" if it[3] in seen_t else "exists-not-imported"
                    key = f"use:{it[2]}:{rel}" + (":file-without-imports" if it[1] == "1" else "")
                    if rel == "transitive-only" and reach and p[0] in reach:
                        n_transitive_reachable += 1
                        if it[2] == "flow" and len(p[3][1:]) == 1 and sum(len(x[3][1:]) for x in world[1:]) == 1:
                            # the benign flow alone in its world: shows what the compiler does with a value whose
                            # type lives in a package that is reachable only through an import of an import
                            v = "accept" if real == "(accept)" else "reject"
                            flow_transitive[v] = flow_transitive.get(v, 0) + 1
                else:
                    rel = lambda n: "-" if n == "-" else "prim" if n == "int32" else "own" if n == p[0] else "foreign"
                    where = "root" if p[0] == "Main" else "lib"
                    tr = "inherent" if it[2] == "inherent" else "trait-" + rel(it[3])
                    key = f"impl:{where}:{tr}:{it[4]}:head-{rel(it[5])}:arg-{rel(it[6])}"
                placements[key] = placements.get(key, 0) + 1
        if len(world) > 2 and any(len(p[3]) > 1 for p in world[1:]):
            distinct.add(sexp)
        for kind, _ in why:
            reasons_count[kind] = reasons_count.get(kind, 0) + 1
        # ---- property oracle on the implementation's own verdict
        if why and real == "(accept)":
            kind = why[0][0]
            ctx.report({"oracle": "must-reject", "kind": "accepts-" + kind},
                       f"the compiler accepts a project the property forbids: {why[0][1]}",
                       {"id": cid, "world": sexp, "reasons": [w[1] for w in why], "observed": real_raw})
        if same != "same":
            ctx.report({"oracle": "order", "kind": "verdict-depends-on-directory-order-or-hash-seed"},
                       "three compiles of the same sources (directories created in different orders) disagree",
                       {"id": cid, "world": sexp, "observed": vlib.unesc(same)[:3000]})
        if real.startswith("(panic") or real.startswith("(thread-panic"):
            ctx.report({"oracle": "panic", "kind": "compiler-panics"}, "the compiler panics instead of reporting an error",
                       {"id": cid, "world": sexp, "observed": real_raw})
        # ---- tie
        if pred == real:
            n_eq += 1
        else:
            diffs.append((cid, sexp, real, pred, msgs))
        if len(samples) < 3 and why and len(sexp) < 700 and ("impl" in sexp):
            samples.append({"id": cid, "world": sexp, "implementation": real_raw, "model": pred,
                            "oracle_demands_rejection_because": [w[1] for w in why], "diagnostics": msgs[:400]})
    for cid, sexp, real, pred, msgs in diffs[:10]:
        ctx.broken_ties.append(("world correspondence", f"{cid}: {sexp} impl={real} model={pred} diagnostics={msgs[:300]}"))
    t5 = time.time()
    ep = entry_points(ctx, model, why_of)
    cov = {
        "evaluations": 3 * len(cases) + sum(ep["compared"].values()), "distinct_nontrivial": len(distinct),
        "rule": "one case = one generated world (package layout × placements) compiled three times by the real pipeline::compile "
                "(directories created in different orders, fresh thread); non-trivial = at least two packages and at least one "
                "placed reference or impl; distinct by world text",
        "samples": samples, "worlds": len(cases), "worlds_equal": n_eq, "model_diffs": len(diffs),
        "graph_shapes": shapes, "outcomes": dict(sorted(outcomes.items(), key=lambda kv: -kv[1])),
        "placements": dict(sorted(placements.items())), "oracle_rejection_reasons": reasons_count,
        "confusable_package_names": name_relations,
        "uses_of_transitive_only_packages_in_reachable_packages": n_transitive_reachable,
        "benign_flow_through_transitive_only_package_alone_in_its_world": flow_transitive,
        "phases_s": {"extract_and_lean": round(t1 - t0, 1), "harness_build": round(t2 - t1, 1), "harness_run": round(t3 - t2, 1),
                     "model_run": round(t4 - t3, 1), "compare_and_oracle": round(time.time() - t4, 1)},
        "internal_error_followups": internal_followups,
        "impl_oracle_failures": len(ctx.violations),
        "entry_points": dict(ep, rule="every world (copy 0, the directory `compile` just judged) and every project of the C14 catalogues "
                             "`lookup_visibility_projects` + `import_rule_projects` through typecheck_with_packages and "
                             "typecheck_with_packages_and_results (entry main.gom, and a second file of package Main when there is one); verdict class = "
                             "accept / graph error with its names / set of diagnostic classes; `agree` counts equality with compile's class",
                             theorem_tie="Props/C16.lean speaks about the decision logic (package_allowed, the lookup of a qualified path, the orphan "
                             "rule, the merge check), which all entry points share; what differs per entry point is the loop that fills `deps` / "
                             "`deps_interfaces`, which the model's `Ctx.deps` abstracts.  `model_equal` is the world tie stated per entry point: "
                             "the model's verdict against typecheck_with_packages and against typecheck_with_packages_and_results (the tie against "
                             "compile is `worlds_equal`)",
                             seconds=round(time.time() - t5, 1)),
    }
    own_qual_main = sum(1 for r in cases if "(use 0 fn Main q)" in r[2])
    if internal_followups:
        ctx.notes.append(f"{internal_followups} worlds: `Internal error: Variable … not found` follows an unresolved constructor pattern "
                         "(still a rejection; counted as class `unresolved`)")
    ctx.notes.append("own items are named without prefix in Main: the model (fullDefName) predicts `Main::f` unresolved; "
                     f"{own_qual_main} generated worlds use it (the generator qualifies own items only outside Main)")
    ctx.assumptions += [
        "a use is a reference form naming a *standard* item (struct, enum, trait, fn) that every loadable package defines; the typer's "
        "inference is not modelled — only whether the name is reachable",
        "builtins: the initial environment holds extern functions only (no builtin trait or nominal type), so `Main` treating "
        "unqualified names as local cannot create an impl another package could repeat",
        "diagnostics are compared as a set of classes; `Internal error: Variable … not found` after an unresolved constructor "
        "pattern is counted as `unresolved`",
    ]
    tb = ["Lean 4 kernel", "axioms: " + ",".join(ctx.proof["axioms"] or ["none"]),
          "tools/extract.py gen_package_ids", "harness/src/c16.rs (world generator, source templates, message classification)",
          "harness/src/c16e.rs (verdicts of typecheck_with_packages / typecheck_with_packages_and_results)",
          "tools/props/c16.py (declarative oracle)"]
    return ctx.finish("proof", cov, tb, "lake build GomlVerif.Props.C16 && #print axioms")
