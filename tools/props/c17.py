"""C17 — all call forms of a method agree.

proof:   lean/GomlVerif/Props/C17.lean (call_forms_agree, call_forms_static_bounded_agree, inherent_forms_agree,
         inherent_generic_lookup, dyn_requires_impl, no_impl_no_dyn) over the dispatch section of Model/Mangle.lean
tie:     callee names read off the real Core / Mono / Lift dumps and the real goast of generated programs
         (every applicable call form of one method in one program) vs the names the model computes at each site
oracle:  model-free — the Go function reached by the static call, by the instance of the bounded generic
         function and by the vtable wrapper must be ONE declared function (and not the distractor impl's);
         both inherent call forms likewise; programs that coerce to dyn without an impl, call through an
         unsatisfied bound, or define a method ambiguously must be rejected with a diagnostic
"""
import collections, json, os, re, sys
import vlib


def sexp_parse(s):
    """minimal reader for the harness's S-expressions → nested lists of str"""
    i, n = 0, len(s)
    stack = [[]]
    while i < n:
        c = s[i]
        if c in " \t\n":
            i += 1
        elif c == "(":
            stack.append([]); i += 1
        elif c == ")":
            x = stack.pop(); stack[-1].append(x); i += 1
        elif c == '"':
            j, buf = i + 1, []
            while s[j] != '"':
                if s[j] == "\\":
                    buf.append({"n": "\n", "t": "\t", "r": "\r"}.get(s[j + 1], s[j + 1])); j += 2
                else:
                    buf.append(s[j]); j += 1
            stack[-1].append("".join(buf)); i = j + 1
        else:
            j = i
            while j < n and s[j] not in " \t\n()":
                j += 1
            stack[-1].append(s[i:j]); i = j
    return stack[0][0] if stack[0] else []


def is_impl_name(n):
    return n.startswith("trait_impl#") or n.startswith("_goml_trait_impl_")


def is_inh_name(n):
    return n.startswith("inherent#") or n.startswith("_goml_inherent_")


def run(ctx):
    ctx.extract()
    lean_ok = ctx.build_lean(["GomlVerif.Props.C17"])
    if not ctx.build_harness():
        return ctx.finish("proof", {"evaluations": 0, "distinct_nontrivial": 0}, [], "lake build")
    ok, out = ctx.gv("c17", ["--relied", "any"])
    rows = vlib.read_tsv(os.path.join(ctx.run_dir, "c17.cases.tsv")) if ok else []
    progs = [r for r in rows if len(r) >= 11 and r[1] == "PROG"]
    negs = [r for r in rows if len(r) >= 6 and r[1] == "NEG"]
    extras = [r for r in rows if len(r) >= 6 and r[1] == "EXTRA"]
    have_model = os.path.exists(vlib.MODEL)

    # ---------------------------------------------------------------- model predictions
    lines = []
    for r in progs:
        pid, label, stream, tr, m, ty = r[0], r[2], r[3], r[4], r[5], r[6]
        oty = "TString" if label == "int32" else "TInt32"
        lines += [
            f"{pid}.static\t(calltarget {tr} {ty} {m})",
            f"{pid}.bound\t(monocallee ((T {ty})) {tr} (param T) {m})",
            f"{pid}.viacore\t(calltarget {tr} (param T) {m})",
            f"{pid}.dyn\t(dyncallee (Opt) (Pair) {tr} {ty} {m})",
            f"{pid}.implgo\t(implgo {tr} {ty} {m})",
            f"{pid}.other\t(implgo {tr} {oty} {m})",
            f"{pid}.via\t(spec via ((T {ty})))",
            f"{pid}.viago\t(specgo via ((T {ty})))",
            f"{pid}.inh\t(inh {ty} im)",
            f"{pid}.inhgo\t(inhgo {ty} im)",
        ]
    model = ctx.model("c17", lines) if (lines and have_model) else {}

    n_ok = n_agree = n_tie = n_tie_ok = 0
    outcomes = collections.Counter()
    samples = []
    distinct = set()

    def tie(cond, pid, what, detail):
        nonlocal n_tie, n_tie_ok
        n_tie += 1
        if cond:
            n_tie_ok += 1
        else:
            ctx.broken_ties.append((f"model≠impl: {what}", f"{pid}: {detail}"))

    for r in progs:
        pid, label, stream, tr, m, ty, nominal, outcome, obs, src = r[0], r[2], r[3], r[4], r[5], r[6], r[7], r[8], r[9], vlib.unesc(r[10])
        o = outcome.split(":")[0]
        outcomes[(stream, o)] += 1
        payload = {"id": pid, "receiver": label, "trait": tr, "method": m, "outcome": outcome[:300], "src": src}
        if o == "panic":
            ctx.report({"oracle": "crash", "stream": stream}, f"compiler panics on the call-form program for receiver {label}: {outcome[:120]}", payload)
            continue
        if o != "ok":
            ctx.report({"oracle": "reject", "stream": stream, "receiver": label},
                       f"a well-formed program calling {tr}::{m} in every form on a {label} receiver is rejected: {outcome[:160]}", payload)
            continue
        n_ok += 1
        distinct.add((label, tr, m))
        ob = {x[0]: x[1:] for x in sexp_parse(obs)}
        core = {f[0]: f[1:] for f in ob["core"][0]}
        mono = {f[0]: f[1:] for f in ob["mono"][0]}
        lift = {f[0]: f[1:] for f in ob["lift"][0]}
        gorefs = collections.defaultdict(list)
        for f, n in ob["gorefs"]:
            gorefs[f].append(n)
        declared = {n for k, n in ob["toplevel"] if k == "fn"}
        fails = [(f[0], f[1]) for f in ob["failures"]]

        # ---- model-free agreement oracle on the Go file
        def impl_refs(fn):
            return [n for n in gorefs.get(fn, []) if is_impl_name(n)]
        S = impl_refs("f_static")
        via_go = [n for n in gorefs.get("f_bound", []) if n.startswith("via") or n.startswith("_goml_via")]
        B = impl_refs(via_go[0]) if via_go else []
        ctor = [n for n in gorefs.get("f_dyn", []) if n.startswith("dyn__") and "__vtable__" in n]
        wraps = [n for n in gorefs.get(ctor[0], []) if "__wrap__" in n] if ctor else []
        wrap_m = [w for w in wraps if w.endswith("__" + m)]
        W = impl_refs(wrap_m[0]) if wrap_m else []
        O = impl_refs("f_other")
        payload["callees"] = {"static": S, "bound": B, "dyn_wrapper": W, "via_instance": via_go, "vtable_ctor": ctor, "wrappers": wraps,
                              "distractor": O, "declared_impl_fns": sorted(n for n in declared if is_impl_name(n))}
        good = True
        def viol(kind, what):
            nonlocal good
            good = False
            ctx.report({"oracle": "call-forms", "kind": kind, "stream": stream}, what, payload)
        if len(S) != 1 or S[0] not in declared:
            viol("static-callee-undeclared", f"{label}: the static call {tr}::{m}(x, 1) names {S}, not one declared function")
        if len(B) != 1 or (S and B != S):
            viol("bound-callee-differs", f"{label}: through the bound T: {tr} the instance calls {B}, the static form calls {S}")
        if nominal == "nodyn":
            pass  # the receiver already is a trait object of another trait: there is no dyn form
        elif len(ctor) != 1 or ctor[0] not in declared or len(wrap_m) != 1 or wrap_m[0] not in declared:
            viol("dyn-vtable-broken", f"{label}: coercion to dyn {tr} uses constructor {ctor} / wrappers {wraps}, not declared exactly once")
        elif len(W) != 1 or W[0] not in declared:
            viol("dyn-callee-undeclared", f"{label}: the vtable wrapper {wrap_m[0]} calls {W}, which is not a declared function (static form calls {S})")
        elif S and W != S:
            viol("dyn-callee-differs", f"{label}: the vtable wrapper calls {W}, the static form calls {S}")
        if S and O and (O[0] == S[0]):
            viol("distractor-shares-callee", f"{label}: the impl for the other type is reached through the same function {S}")
        if nominal == "nominal":
            D = [n for n in gorefs.get("f_dot", []) if is_inh_name(n)]
            P = [n for n in gorefs.get("f_path", []) if is_inh_name(n)]
            payload["callees"]["inherent_dot"], payload["callees"]["inherent_path"] = D, P
            if len(D) != 1 or D != P or D[0] not in declared:
                viol("inherent-forms-differ", f"{label}: x.im(1) calls {D}, {label}::im(x, 1) calls {P}")
        for k in sorted(set(f[0] for f in fails)):
            who = [f[1] for f in fails if f[0] == k]
            # an undeclared callee already reported above is the same defect
            if k == "undeclared-identifier" and not good:
                continue
            viol("go-scope:" + k, f"{label}: emitted Go has {k} on {who[:3]}")
        n_agree += good

        # ---- tie: every site's name equals the model's
        mo = lambda k: model.get(f"{pid}.{k}", ["<none>"])
        st = mo("static")
        tie(st[0] == "direct" and core.get("f_static", []) == [st[1]], pid, "static site (Core)", f"Core f_static: {core.get('f_static')}; model: {st}")
        vc = mo("viacore")
        tie(core.get("via", []) == [f"<traitcall {tr}>"] and vc[0] == "traitcall", pid, "bounded site (Core keeps ETraitCall)",
            f"Core via: {core.get('via')}; model: {vc}")
        via_name = mo("via")[0]
        tie(mono.get(via_name, None) == [mo("bound")[0]], pid, "bounded site (Mono)", f"Mono {via_name}: {mono.get(via_name)}; model: {mo('bound')}")
        tie(lift.get(via_name, None) == [mo("bound")[0]], pid, "bounded site (Lift)", f"Lift {via_name}: {lift.get(via_name)}; model: {mo('bound')}")
        tie(mono.get("f_static", []) == [st[1] if len(st) > 1 else None], pid, "static site (Mono)", f"Mono f_static: {mono.get('f_static')}")
        tie(S == [mo("implgo")[0]], pid, "static site (Go)", f"Go f_static: {S}; model: {mo('implgo')}")
        tie(via_go == [mo("viago")[0]], pid, "instance name (Go)", f"Go f_bound: {via_go}; model: {mo('viago')}")
        dm = mo("dyn")
        if nominal != "nodyn":
            tie(W == [dm[0]] and ctor == [dm[1]] and wrap_m == [dm[2]], pid, "dyn site (Go)", f"Go wrapper callee {W}, ctor {ctor}, wrapper {wrap_m}; model: {dm}")
        tie(O == [mo("other")[0]] * len(O) and len(O) >= 1, pid, "distractor impl (Go)", f"Go f_other: {O}; model: {mo('other')}")
        if nominal == "nominal":
            tie(core.get("f_dot", []) == [mo("inh")[0]] and core.get("f_path", []) == [mo("inh")[0]], pid, "inherent sites (Core)",
                f"Core f_dot {core.get('f_dot')} f_path {core.get('f_path')}; model: {mo('inh')}")
            tie(payload["callees"]["inherent_dot"] == [mo("inhgo")[0]], pid, "inherent site (Go)", f"{payload['callees']['inherent_dot']} vs {mo('inhgo')}")
        if len(samples) < 3 and label in ("struct", "tuple", "generic_enum_instance"):
            samples.append({"receiver": label, "trait": tr, "method": m, "callees": payload["callees"],
                            "model": {k: mo(k) for k in ("static", "bound", "dyn", "implgo")}})


    # ---------------------------------------------------------------- same effect and result under Go.Sem
    from props import c01
    sem_progs, sem_feats = c01.collect(ctx, sub="c17sem")
    sem_progs = c01.evaluate(ctx, sem_progs)
    groups = collections.defaultdict(dict)
    n_sem = n_sem_groups = n_sem_agree = n_sem_src = n_sem_src_ok = 0
    sem_forms = collections.Counter()
    n_corpus = n_corpus_ok = 0
    for pid, d in sem_progs.items():
        if pid.startswith("corpus:"):
            n_corpus += 1
            g = (d.get("out") or {}).get("go")
            payload = {"id": pid, "src": d.get("src"), "expected": d.get("expect"), "observed": g and {"status": g[0], "stdout": vlib.unesc(g[1])[:400]},
                       "outcome": d.get("reject") or d.get("panic")}
            if g is not None and g[0] == "ok" and d.get("expect") is not None and vlib.unesc(g[1]) == d["expect"]:
                n_corpus_ok += 1
            else:
                ctx.report({"oracle": "corpus-witness", "program": pid}, f"{pid}: the emitted Go does not print what the source denotes (all call forms of the method)", payload)
            continue
        if not pid.startswith("sem/"):
            continue
        _, recv, pos, form = pid.split("/")
        n_sem += 1
        if "panic" in d:
            ctx.report({"oracle": "crash", "stream": "effects"}, f"compiler panics on {pid}: {d['panic'][:120]}", {"id": pid, "src": d.get("src")})
            continue
        if "reject" in d:
            ctx.report({"oracle": "reject", "stream": "effects", "receiver": recv},
                       f"{pid}: a well-formed program is rejected: {d['reject'][1][:160]}", {"id": pid, "src": d.get("src"), "outcome": d["reject"]})
            continue
        o = d.get("out", {})
        g = o.get("go")
        if g is None or g[0] in ("decode-error", "parse-error"):
            ctx.broken_ties.append(("Go.Sem driver", f"{pid}: {g}")); continue
        sem_forms[form] += 1
        groups[(recv, pos)][form] = (g[0], vlib.unesc(g[1]), d.get("src"), o.get("src"))
    for (recv, pos), forms in sorted(groups.items()):
        n_sem_groups += 1
        outs = {f: (v[0], v[1]) for f, v in forms.items()}
        # majority outcome = what the method does; a form that deviates is the failing input
        cnt = collections.Counter(outs.values())
        ref, _ = cnt.most_common(1)[0]
        # the surface program under SrcSem, when it decides, is the arbiter
        srcs = collections.Counter((v[3][0], vlib.unesc(v[3][1])) for v in forms.values()
                                   if v[3] is not None and (v[3][0] == "ok" or v[3][0].startswith("panic")))
        if srcs:
            ref = srcs.most_common(1)[0][0]
        bad = {f: o for f, o in outs.items() if o != ref}
        stuck = {f: o for f, o in outs.items() if o[0].startswith("stuck") or o[0] == "fuel"}
        if not bad:
            n_sem_agree += 1
        for f, o in sorted(bad.items()):
            payload = {"id": f"sem/{recv}/{pos}/{f}", "receiver": recv, "position": pos, "form": f, "src": forms[f][2],
                       "go_sem_of_this_form": {"status": o[0], "stdout": o[1][:400]},
                       "go_sem_of_the_other_forms": {k: {"status": v[0], "stdout": v[1][:400]} for k, v in outs.items() if k != f},
                       "expected": {"status": ref[0], "stdout": ref[1][:400]}}
            kind = "not-executable" if f in stuck else ("effects-or-result-differ" if o[0] == ref[0] else "ends-differently")
            rclass = "dyn-of-other-trait" if recv.startswith("dyn_") else ("overlapping-inherent-impls" if recv.startswith("ovl_") else "plain")
            if "@" in recv:
                rclass += "@" + recv.split("@", 1)[1]   # placement in library packages
            ctx.report({"oracle": "same-effect", "kind": kind, "form": f, "receiver_class": rclass},
                       f"{recv}, call in {pos} position: the {f} form prints/returns {o[1][:80]!r} ({o[0]}), the other forms {ref[1][:80]!r} ({ref[0]})", payload)
        for f, v in forms.items():
            if v[3] is not None and (v[3][0] == "ok" or v[3][0].startswith("panic")):
                n_sem_src += 1
                n_sem_src_ok += (v[3][0], vlib.unesc(v[3][1])) == outs[f]
        if len(samples) < 5 and pos in ("loop-tail", "result-value") and recv in ("struct_ref", "dyn_loud_same_signatures"):
            samples.append({"effect_group": f"{recv}/{pos}", "forms": sorted(outs), "stdout": ref[1][:200], "status": ref[0],
                            "src_of_one_form": next(iter(forms.values()))[2]})

    n_neg_ok = 0
    for r in negs:
        nid, want, outcome, src = r[2], r[3], r[4], vlib.unesc(r[5])
        o = outcome.split(":")[0]
        outcomes[("negative", o)] += 1
        payload = {"id": r[0], "program": nid, "outcome": outcome[:300], "src": src}
        if o == "ok":
            ctx.report({"oracle": "accept", "kind": nid}, f"a program that must be rejected ({nid}) is accepted", payload)
        elif o == "panic":
            ctx.report({"oracle": "crash", "kind": nid}, f"the compiler panics instead of diagnosing {nid}: {outcome[:120]}", payload)
        elif want and want not in outcome:
            ctx.report({"oracle": "diagnostic", "kind": nid}, f"{nid} is rejected without the expected diagnostic ({want!r}): {outcome[:160]}", payload)
        else:
            n_neg_ok += 1
    n_extra_ok = 0
    for r in extras:
        xid, outcome, detail, src = r[2], r[3], r[4], vlib.unesc(r[5])
        outcomes[("extra", outcome.split(":")[0])] += 1
        payload = {"id": r[0], "program": xid, "outcome": outcome[:300], "observed": detail[:600], "src": src}
        if not outcome.startswith("ok"):
            ctx.report({"oracle": "reject", "stream": "extra", "receiver": xid}, f"{xid}: a well-formed program is not compiled: {outcome[:160]}", payload)
            continue
        bad = [x for x in sexp_parse(detail) if x[2] == "BAD"]
        if bad:
            ctx.report({"oracle": "call-forms", "kind": "equally-named-methods-confused", "stream": xid},
                       f"{xid}: {bad[0][0]} should call a declared function containing {bad[0][1]!r}, calls {bad[0][3]}", payload)
        else:
            n_extra_ok += 1
    ctx.violations.sort(key=lambda v: len(v[2].get("src", "")))

    cov = {
        "evaluations": len(progs) + len(negs) + len(extras) + n_sem,
        "distinct_nontrivial": len(distinct) + n_neg_ok + n_extra_ok + n_sem_groups,
        "effect_programs": {"programs": n_sem, "by_form": dict(sem_forms), "groups(receiver x position)": n_sem_groups,
                            "groups_where_all_forms_have_one_go_sem_outcome": n_sem_agree,
                            "corpus_witnesses_reproduced": f"{n_corpus_ok}/{n_corpus}", "programs_decided_by_SrcSem": n_sem_src, "of_those_equal_to_go_sem": n_sem_src_ok, "generator": sem_feats},
        "equally_named_method_programs_ok": f"{n_extra_ok}/{len(extras)}",
        "rule": "one case = one generated program; positive programs (receiver type × trait name × method name) contain the static, "
                "bounded-generic and dyn form of one trait method plus a distractor impl, and both inherent forms for local nominal "
                "receivers; non-trivial = accepted by the real pipeline (positive) or rejected with the expected diagnostic (negative)",
        "programs": len(progs) + len(negs) + len(extras) + n_sem,
        "program_outcomes": {f"{k[0]}:{k[1]}": v for k, v in sorted(outcomes.items())},
        "positive_programs_all_forms_agree": n_agree, "positive_programs_compiled": n_ok,
        "negative_programs_rejected_as_required": n_neg_ok, "negative_programs": len(negs),
        "site_name_comparisons": {"checked": n_tie, "equal_to_model": n_tie_ok},
        "model_diffs": n_tie - n_tie_ok,
        "impl_oracle_failures": len(ctx.violations) + sum(h["count"] for h in ctx.known_hits),
        "samples": samples,
    }
    ctx.assumptions += [
        "'runs the same code' is judged by identity of the Go function reached (there is no Go toolchain to run the program); with C07/C09 "
        "this gives equality of results",
        "callee names are read from the Debug rendering of the real Core/Mono/Lift bodies (EVar / ETraitCall nodes) and from identifier "
        "references in the real goast (harness/src/goscope.rs)",
        "single-package programs only: impls in dependency packages are covered by the theorem hasVisible_iff, not by generated programs",
    ]
    tb = ["Lean 4 kernel", "axioms: " + ",".join(ctx.proof["axioms"] or ["none"]), "tools/extract.py (dispatch anchors, name tables)",
          "harness/src/c17.rs (program generator, dump scraping), harness/src/goscope.rs", "tools/props/c17.py (comparison, signatures)"]
    return ctx.finish("proof", cov, tb, "lake build GomlVerif.Props.C17 && lake env lean Axioms.lean (#print axioms)")
