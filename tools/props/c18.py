"""C18 — derived ToString / ToJson are total and faithful.

proof:   lean/GomlVerif/Props/C18.lean over Model/Derive.lean (toJson, toString, jsonQuote, goQuote, jsonRead,
         encode, genJson/genString + scoped)
tie:     L1 — generated definitions x values compiled by the real pipeline; stdout of the real Go AST under
         Go.Sem (and of the real Core under Sem) must equal the model's toJson / toString text
oracle:  model-free — every printed to_json line must (a) parse with Python's json module to the structure a
         declarative Rust writer (serde_json for the strings) gives for the value, (b) parse with the Lean
         jsonRead to `encode`; the to_string text must equal a `join`-style rendering computed in Rust;
         definitions the derive accepts must compile; definitions it cannot handle must be rejected with a
         diagnostic in lower/typer
"""
import collections, json, os, re, struct, subprocess
import vlib
from props import c01, c17, lowertie


def collect(ctx):
    ok, out = ctx.gv("c18")
    rows = vlib.read_tsv(os.path.join(ctx.run_dir, "c18.cases.tsv")) if ok else []
    progs = collections.OrderedDict()
    feats = ""
    floats = []
    for r in rows:
        if r[0] == "#FEATS":
            feats = r[1]
            continue
        if r[1] == "FLOAT":
            floats.append((r[0], r[2], r[3]))
            continue
        d = progs.setdefault(r[0], {"stages": {}})
        k = r[1]
        if k == "CASE":
            d["case"] = r[2]
        elif k == "EXPJSON":
            d["expjson"] = vlib.unesc(r[2]) if len(r) > 2 else ""
        elif k == "EXPSTR":
            d["expstr"] = vlib.unesc(r[2]) if len(r) > 2 else ""
        elif k == "PROBE":
            d["probe"] = (r[2], vlib.unesc(r[3]), r[4])
        elif k == "DERIVED":
            d["derived"] = r[2]
        elif k == "HELPER":
            d["helper"] = (vlib.unesc(r[2]), r[3], r[4], r[5], r[6])
        elif k == "CORPUS":
            d["corpus"] = vlib.unesc(r[3]) if r[2] == "out" and len(r) > 3 else None
        elif k == "EXPECTREJECT":
            d["expect_reject"] = r[2]
        elif k == "SRC":
            d["src"] = vlib.unesc(r[2])
        elif k == "STAGE":
            d["stages"][r[2]] = r[3]
        elif k == "REJECT":
            d["reject"] = (r[2], r[3] if len(r) > 3 else "")
        elif k == "PANIC":
            d["panic"] = r[2]
    return progs, feats, floats


def run_model(ctx, lines):
    p = vlib.srun([vlib.MODEL, "c18"], input="\n".join(lines) + "\n", stdout=subprocess.PIPE,
                       stderr=subprocess.PIPE, text=True, timeout=3000)
    res = {}
    for l in p.stdout.split("\n"):
        f = l.split("\t")
        if len(f) >= 2:
            res[f[0]] = f[1:]
    if p.returncode != 0:
        ctx.broken_ties.append(("model driver c18", p.stderr[-1000:]))
    return res


def diag_class(msg):
    """diagnostic text with the parts that name a particular program removed"""
    m = msg.split(" | ")[0]
    m = re.sub(r"ExprId \{[^}]*\}", "<expr>", m)
    m = re.sub(r"TVar\(\d+\)|TypeVar\(\d+\)", "<tvar>", m)
    m = re.sub(r"`[^`]*`", "`_`", m)
    return m[:100]


class BadConst(Exception):
    pass


def _const(s):
    raise BadConst(s)


def py_json(text):
    """Python's json module as an independent reader: objects as ordered pair lists, no NaN/Infinity"""
    return json.loads(text, object_pairs_hook=lambda ps: ("obj", ps), parse_constant=_const)


def py_canon(x):
    """same canonical text as Driver/C18.lean `canon`, from the raw JSON text via Python's reader"""
    if x is None:
        return "Z"
    if x is True:
        return "T"
    if x is False:
        return "F"
    if isinstance(x, NumText):
        return "N<" + x.t + ">"
    if isinstance(x, str):
        return "S[" + ",".join(str(ord(c)) for c in x) + "]"
    if isinstance(x, list):
        return "A[" + ",".join(py_canon(i) for i in x) + "]"
    if isinstance(x, tuple) and x[0] == "obj":
        return "O{" + ",".join(py_canon(k) + ":" + py_canon(v) for k, v in x[1]) + "}"
    return "?"


class NumText:
    def __init__(self, t):
        self.t = t


def py_json_text(text):
    return json.loads(text, object_pairs_hook=lambda ps: ("obj", ps), parse_constant=_const,
                      parse_int=NumText, parse_float=NumText)


def f32bits(x):
    try:
        return struct.pack(">f", x)
    except OverflowError:
        return None


def same_value(a, e):
    """actual vs expected parsed JSON; numbers by value (a float32 field is printed with float32's
    shortest digits by both writers, so the float64 readings coincide)"""
    if isinstance(e, tuple) and e[0] == "obj":
        return (isinstance(a, tuple) and a[0] == "obj" and len(a[1]) == len(e[1])
                and all(ka == ke and same_value(va, ve) for (ka, va), (ke, ve) in zip(a[1], e[1])))
    if isinstance(e, list):
        return isinstance(a, list) and len(a) == len(e) and all(same_value(x, y) for x, y in zip(a, e))
    if isinstance(e, bool) or e is None or isinstance(e, str):
        return type(a) is type(e) and a == e
    if isinstance(e, (int, float)):
        return isinstance(a, (int, float)) and not isinstance(a, bool) and (a == e or f32bits(a) == f32bits(e))
    return False


ILLEGAL_ESC = re.compile(r'\\(?:\\|"|([^"\\/bfnrtu]))')


def culprit(line):
    """what makes a line that is not JSON not JSON (used in finding signatures)"""
    for m in ILLEGAL_ESC.finditer(line):
        if m.group(1):
            return "escape \\" + m.group(1)
    if re.search(r"[\x00-\x1f]", line):
        return "raw control character"
    if re.search(r"[:\[,][+-]?(Inf|NaN)", line):
        return "non-finite float"
    return "other"


def halfway_tie(sx, lean_txt, rust_txt):
    """the two renderings differ only because the value lies exactly halfway between two shortest candidates:
    strconv rounds such a tie to the even digit (ftoa.go: roundShortest / ryuDigits), Rust's formatter rounds it up"""
    from fractions import Fraction
    try:
        bits = int(sx.strip("()").split()[2])
        x = Fraction(struct.unpack(">d", struct.pack(">Q", bits))[0])
        a, b = Fraction(lean_txt), Fraction(rust_txt)
    except (ValueError, IndexError, OverflowError):
        return False
    digits = re.sub(r"e.*", "", lean_txt).replace(".", "").replace("-", "").rstrip("0") or "0"
    return a != b and abs(a - x) == abs(b - x) and int(digits[-1]) % 2 == 0


def run(ctx):
    ctx.extract()
    have_props = os.path.exists(os.path.join(vlib.LEAN, "GomlVerif/Props/C18.lean"))
    ctx.build_lean(["GomlVerif.Props.C18"] if have_props else [])
    if not ctx.build_harness():
        return ctx.finish("proof", {"evaluations": 0, "distinct_nontrivial": 0, "samples": []}, [], "lake build")
    progs, feats, floats = collect(ctx)
    gen = {k: d for k, d in progs.items() if "case" in d}
    rej = {k: d for k, d in progs.items() if "expect_reject" in d}
    c01.evaluate(ctx, progs)
    model = run_model(ctx, [f"{pid}\t{d['case']}" for pid, d in gen.items()])
    gc = c01.gocheck(ctx, [f"{pid}\t{d['stages']['go']}" for pid, d in gen.items() if "go" in d["stages"]])

    streams = collections.Counter()
    n_nonfinite_wellformed = n_ast = n_ast_ok = 0
    n_ok = n_l1 = n_l1_ok = n_core_ok = n_json_lines = n_json_ok = n_str = n_str_ok = n_reader_agree = n_reader = 0
    samples, distinct = [], set()
    oracle_lines, oracle_meta = [], {}

    for pid, d in gen.items():
        stream = pid.split(":")[-1]
        m = model.get(pid)
        payload = {"id": pid, "src": d.get("src")}
        if not m or m[0] != "model":
            ctx.broken_ties.append(("model driver", f"{pid}: {m}"))
            continue
        want_out, accepted, scoped, scoped_old = vlib.unesc(m[1]), m[2] == "yes", m[3] == "yes", m[4] == "yes"
        # ---- L1 on the derive itself: the impl blocks `derive::expand` appended vs the model's genString / genJson
        if d.get("derived") not in (None, "none") and len(m) > 5:
            n_ast += 1
            if c17.sexp_parse(d["derived"]) == c17.sexp_parse(m[5]):
                n_ast_ok += 1
            else:
                ctx.broken_ties.append(("model≠impl (generated impl AST)", f"{pid}: impl {d['derived'][:300]} model {m[5][:300]}"))
        if not accepted:
            ctx.broken_ties.append(("generator", f"{pid}: a definition in the accept stream is not accepted by the model"))
            continue
        if "panic" in d:
            streams[(stream, "panic")] += 1
            ctx.report({"oracle": "crash", "where": re.sub(r"\d+", "N", d["panic"])[:80]},
                       f"the compiler panics on a derived definition: {d['panic'][:160]}", payload)
            continue
        if "reject" in d:
            streams[(stream, "rejected")] += 1
            stage, msg = d["reject"]
            payload["diagnostics"] = msg[:600]
            ctx.report({"oracle": "accepted-definition-rejected", "stage": stage, "class": diag_class(msg)},
                       f"a definition the derive accepts is rejected by generated code failing in `{stage}`: {msg[:200]}", payload)
            continue
        streams[(stream, "compiled")] += 1
        n_ok += 1
        o = d["out"]
        go = o.get("go")
        if go is None or go[0] in ("decode-error", "parse-error"):
            ctx.broken_ties.append(("dump decoder", f"{pid}: {go}"))
            continue
        if gc.get(pid, ("ok",))[0] == "err":
            payload["gocheck"] = gc[pid][1][:300]
            ctx.report({"oracle": "gocheck", "code": gc[pid][1].split(" ")[0][:60]},
                       f"the Go emitted for a derived definition is not valid Go: {gc[pid][1][:200]}", payload)
            continue
        if go[0] != "ok":
            payload["status"] = go[0]
            ctx.report({"oracle": "run", "status": go[0].split(":")[0]},
                       f"the program printing to_json/to_string does not run to completion under Go.Sem: {go[0][:120]}", payload)
            continue
        got = vlib.unesc(go[1])
        payload["stdout"] = got[:600]
        # ---- model-free oracle
        case_flags = d["case"][:60]
        has_json = "(derive json" in case_flags
        has_str = " string)" in case_flags.split("(defs")[0]
        expj = d["expjson"].split("\n") if d["expjson"] else []
        k = len(expj) if has_json else 0
        parts = got.split("\n")
        jlines = parts[:k]
        rest = "\n".join(parts[k:])
        bad = False
        for i, (line, ej) in enumerate(zip(jlines, expj)):
            n_json_lines += 1
            try:
                a = py_json(line)
            except (ValueError, BadConst, RecursionError) as e:
                bad = True
                ctx.report({"oracle": "json", "kind": "not-json", "culprit": culprit(line)},
                           f"to_json returned text that is not JSON ({culprit(line)}): {line[:160]!r}",
                           dict(payload, line=line[:400], expected=ej[:400]))
                break
            try:
                want = py_json(ej)
            except (ValueError, BadConst):
                # the value holds a non-finite float: no JSON number denotes it; any well-formed text passes
                n_json_ok += 1
                n_nonfinite_wellformed += 1
                continue
            if not same_value(a, want):
                bad = True
                ctx.report({"oracle": "json", "kind": "wrong-structure"},
                           f"to_json's text does not decode to the value: {line[:160]!r} vs {ej[:160]!r}",
                           dict(payload, line=line[:400], expected=ej[:400]))
                break
            n_json_ok += 1
        if has_str and not bad:
            n_str += 1
            if rest == d["expstr"]:
                n_str_ok += 1
            else:
                bad = True
                ctx.report({"oracle": "to_string", "kind": "rendering"},
                           f"to_string is not the `Name {{ f: v }}` / `Enum::Variant(v)` rendering: {rest[:160]!r} vs {d['expstr'][:160]!r}",
                           dict(payload, expected=d["expstr"][:600]))
        # ---- Lean reader on the same lines (ties jsonRead/encode to the run, and to Python's reader)
        if has_json and len(jlines) == k and k > 0:
            sx = d["case"]
            defs_vals = sx[sx.index("(defs"):(sx.rindex(" (attrs") if " (attrs" in sx else -1)]
            lines_sx = " ".join("(l " + " ".join(str(ord(c)) for c in l) + ")" for l in jlines)
            oracle_lines.append(f"{pid}\t(oracle {defs_vals} (lines {lines_sx}))")
            oracle_meta[pid] = (jlines, bad, payload)
        # ---- L1: model text = real program's text (Go AST under Go.Sem; Core under Sem)
        n_l1 += 1
        if got == want_out:
            n_l1_ok += 1
        elif not bad:
            ctx.broken_ties.append(("model≠impl (toJson/toString text)", f"{pid}: impl {got[:200]!r} model {want_out[:200]!r}"))
        core = o.get("core")
        if core and core[0] == "ok" and vlib.unesc(core[1]) == got:
            n_core_ok += 1
        elif core and not bad:
            ctx.broken_ties.append(("Sem(Core) ≠ Go.Sem(Go) on a derive program", f"{pid}: core {core[0]} {vlib.unesc(core[1])[:160]!r} go {got[:160]!r}"))
        if not scoped:
            ctx.broken_ties.append(("model", f"{pid}: compiled, but the model says the generated body is not well-scoped"))
        distinct.add(got)
        if len(samples) < 4 and stream in ("strings", "all", "prims") and len(got) > 20:
            samples.append({"id": pid, "src": d["src"][:700], "stdout": got[:300]})

    res = run_model(ctx, oracle_lines) if oracle_lines else {}
    for pid, (jlines, bad, payload) in oracle_meta.items():
        r = res.get(pid)
        if not r or r[0] != "oracle":
            ctx.broken_ties.append(("model driver (oracle)", f"{pid}: {r}"))
            continue
        verdict, kth, why, parsed = r[1], r[2], r[3], r[4].split(";") if len(r) > 4 else []
        if verdict == "fail" and not bad:
            # Python's reader and the Rust writer accepted the line, the Lean reader / encode did not
            ctx.broken_ties.append(("jsonRead/encode disagrees with the model-free oracle", f"{pid}: line {kth} {why}: {jlines[int(kth)][:160]!r}"))
        if verdict == "ok" and bad:
            ctx.broken_ties.append(("jsonRead/encode accepts what the model-free oracle rejects", f"{pid}"))
        for line, c in zip(jlines, parsed):
            n_reader += 1
            try:
                pc = py_canon(py_json_text(line))
            except (ValueError, BadConst, RecursionError):
                pc = "!"
            if pc == c:
                n_reader_agree += 1
            else:
                ctx.broken_ties.append(("jsonRead ≠ Python json on a printed line", f"{pid}: {line[:120]!r}: lean {c[:120]} python {pc[:120]}"))

    # ---- the attribute surface: which traits an item derives, for every way of writing its attributes
    probes = {k: d for k, d in progs.items() if "probe" in d}
    pres = run_model(ctx, [f"{pid}\t{d['probe'][2]}" for pid, d in probes.items()]) if probes else {}
    n_probe = n_probe_ok = n_probe_tie = 0
    probe_hist = collections.Counter()
    for pid, d in probes.items():
        expect, want, sx = d["probe"]
        _, ci, kind, method, shape = pid.split(":")
        n_probe += 1
        payload = {"id": pid, "src": d.get("src"), "attributes": sx, "expected": expect}
        m = pres.get(pid)
        model_has = None if not m or m[0] != "attrs" else (m[1] == "yes" if method == "to_json" else m[2] == "yes")
        if model_has is None or model_has != (expect == "accept"):
            ctx.broken_ties.append(("Model/Derive.lean derivesTrait ≠ the harness's reading of parse_derive_targets", f"{pid}: {sx}: model {m}, harness {expect}"))
        # the impl blocks the real derive::expand appended to the item
        if d.get("derived") not in (None, "none") and model_has is not None:
            tree = c17.sexp_parse(d["derived"])
            real = sorted(x[2][1] for x in tree[1:] if x[0] == "impl" and x[1] == "In")
            mod = sorted((["to_json"] if m[1] == "yes" else []) + (["to_string"] if m[2] == "yes" else []))
            n_probe_tie += real == mod
            if real != mod:
                ctx.broken_ties.append(("model≠impl (traits derived for an item)", f"{pid}: {sx}: derive::expand appended {real}, model {mod}"))
        if "panic" in d:
            ctx.report({"oracle": "crash", "where": "attr-probe"}, f"the compiler panics on {sx}: {d['panic'][:160]}", payload)
            continue
        accepted = "reject" not in d
        probe_hist[(expect, "accepted" if accepted else "rejected:" + d["reject"][0])] += 1
        if accepted != (expect == "accept"):
            if accepted:
                ctx.report({"oracle": "derive-attributes", "kind": "unlisted-trait-derived", "shape": shape},
                           f"{method} is available on an item whose attributes {sx} do not list the trait", payload)
            else:
                payload["diagnostics"] = d["reject"][1][:400]
                ctx.report({"oracle": "derive-attributes", "kind": "listed-trait-not-derived", "shape": shape, "stage": d["reject"][0], "class": diag_class(d["reject"][1])},
                           f"{method} is missing ({shape}) although the item's attributes {sx} list the trait: {d['reject'][1][:160]}", payload)
            continue
        if not accepted:
            if d["reject"][0] not in ("lower", "typer"):
                ctx.report({"oracle": "late-reject", "kind": "attr-probe", "stage": d["reject"][0]}, f"a call of an underived method is rejected only in {d['reject'][0]}", payload)
            else:
                n_probe_ok += 1
            continue
        go = d["out"].get("go")
        if go is None or go[0] != "ok" or vlib.unesc(go[1]) != want:
            ctx.report({"oracle": "derive-attributes", "kind": "output", "shape": shape},
                       f"{method} ({shape}) with attributes {sx} prints {(go or ['?', ''])[1][:120]!r}, expected {want!r}", payload)
        else:
            n_probe_ok += 1

    # ---- the lowering of the attributes themselves: Model/Lower.lean (lowerAttributes = the node's tokens without the comment
    #      tokens) on the REAL tree of every probe and of every generated program that spells its attributes, against the real
    #      ast::lower::lower (a second, token-level model of what Model/Derive.lean attrText says on characters)
    ltexts = [(f"c18:{pid}", "c18-attribute-probes", d["src"]) for pid, d in probes.items() if d.get("src") and pid.endswith(":direct")]
    ltexts += [(f"c18:{pid}", "c18-generated", d["src"]) for pid, d in gen.items() if d.get("src") and "(attrs (" in d["case"]]
    lower_cov = lowertie.run(ctx, [], ltexts, tag="attribute_lowering") if ltexts else {}

    # ---- hygiene against the package: a function of the package spelled like a helper the generated code calls
    helpers = {k: d for k, d in progs.items() if "helper" in d}
    hgc = c01.gocheck(ctx, [f"{pid}\t{d['stages']['go']}" for pid, d in helpers.items() if "go" in d["stages"]]) if helpers else {}
    def top_of(h):
        # the function the library package defines next to the derived type
        return h[2] if h[3] in ("same-signature", "other-signature") else h[2] + "_of" if h[3] == "control-longer-name" else "-"
    hres = run_model(ctx, [f"{pid}\t(hygiene {d['helper'][1]} {top_of(d['helper'])} {d['helper'][4]})" for pid, d in helpers.items()]) if helpers else {}
    n_helper = n_helper_ok = n_helper_tie = 0
    helper_hist = collections.Counter()
    for pid, d in helpers.items():
        want, method, helper, shape, _case = d["helper"]
        n_helper += 1
        payload = {"id": pid, "src": d.get("src"), "expected": want, "helper": helper, "shape": shape}
        control = shape.startswith("control")
        # the model: is a call of the generated body captured by a top-level function of that name?
        m = hres.get(pid)
        if not m or m[0] != "hygiene" or (m[1] == "hygienic") != control:
            ctx.broken_ties.append(("Model/Derive.lean GMethod.hygienic ≠ the catalogue's reading (captured iff a package function is spelled like a called helper)", f"{pid}: {m}"))
        else:
            n_helper_tie += 1
        sig = {"oracle": "helper-captured-by-package-function", "package": "library"}
        if "panic" in d:
            ctx.report({"oracle": "crash", "where": "helper-capture"}, f"the compiler panics on {pid}: {d['panic'][:160]}", payload)
            continue
        if "reject" in d:
            stage, msg = d["reject"]
            payload["diagnostics"] = msg[:400]
            helper_hist[(shape, "rejected:" + stage)] += 1
            if control:
                ctx.report({"oracle": "accepted-definition-rejected", "stage": stage, "class": diag_class(msg)},
                           f"a derived definition in a library package is rejected in `{stage}`: {msg[:200]}", payload)
            else:
                ctx.report(sig, f"{method} of a type in a library package that also defines `fn {helper}`: the generated code calls the package's function "
                                f"instead of the runtime helper and fails in `{stage}`: {msg[:160]}", payload)
            continue
        go = d["out"].get("go")
        if hgc.get(pid, ("ok",))[0] == "err":
            payload["gocheck"] = hgc[pid][1][:300]
            ctx.report({"oracle": "gocheck", "code": hgc[pid][1].split(" ")[0][:60]}, f"the Go emitted for {pid} is not valid Go: {hgc[pid][1][:200]}", payload)
            continue
        if go is None or go[0] != "ok":
            ctx.report({"oracle": "run", "status": (go or ["?"])[0].split(":")[0]}, f"{pid} does not run to completion under Go.Sem: {go}", payload)
            continue
        got = vlib.unesc(go[1])
        payload["stdout"] = got[:400]
        good = got == want
        if method == "to_json" and not good:
            try:
                good = got.endswith("\n") and same_value(py_json(got[:-1]), py_json(want[:-1]))
            except (ValueError, BadConst, RecursionError):
                good = False
        helper_hist[(shape, "printed-as-required" if good else "printed-something-else")] += 1
        if good:
            n_helper_ok += 1
        elif control:
            ctx.report({"oracle": "library-package-derive", "kind": "output", "method": method},
                       f"{method} of a type in a library package prints {got[:120]!r}, expected {want[:120]!r}", payload)
        else:
            ctx.report(sig, f"{method} of a type in a library package that also defines `fn {helper}`: the generated code calls the package's function "
                            f"instead of the runtime helper and prints {got[:100]!r} instead of {want[:100]!r}", payload)

    # ---- witnesses of past failures and the corpus programs that use the derives
    n_corpus = n_corpus_ok = n_recorded = n_recorded_ok = 0
    for pid, d in progs.items():
        if "corpus" not in d:
            continue
        n_corpus += 1
        payload = {"id": pid, "src": d.get("src")}
        if "panic" in d:
            ctx.report({"oracle": "crash", "where": re.sub(r"\d+", "N", d["panic"])[:80]}, f"the compiler panics on {pid}: {d['panic'][:160]}", payload)
            continue
        if "reject" in d:
            stage, msg = d["reject"]
            payload["diagnostics"] = msg[:600]
            ctx.report({"oracle": "accepted-definition-rejected", "stage": stage, "class": diag_class(msg)},
                       f"a definition the derive accepts is rejected by generated code failing in `{stage}`: {msg[:200]}", payload)
            continue
        go = d["out"].get("go")
        if go is None or go[0] != "ok":
            ctx.report({"oracle": "run", "status": (go or ["?"])[0].split(":")[0]}, f"{pid} does not run to completion under Go.Sem: {go}", payload)
            continue
        got = vlib.unesc(go[1])
        payload["stdout"] = got[:600]
        good = True
        for line in got.split("\n"):
            if line.startswith("{"):
                try:
                    py_json(line)
                except (ValueError, BadConst, RecursionError):
                    good = False
                    ctx.report({"oracle": "json", "kind": "not-json", "culprit": culprit(line)},
                               f"to_json returned text that is not JSON ({culprit(line)}): {line[:160]!r}", dict(payload, line=line[:400]))
                    break
        if d["corpus"] is not None:
            n_recorded += 1
            if d["corpus"] == got:
                n_recorded_ok += 1
            else:
                good = False
                ctx.report({"oracle": "recorded-output", "program": pid}, "Go.Sem of the emitted Go differs from the output recorded from real Go",
                           dict(payload, expected=d["corpus"][:600]))
        n_corpus_ok += good

    # ---- %g: Sem.showFloat (used by Go.Sem and the model) vs Rust's shortest digits
    fres = run_model(ctx, [f"{fid}\t{sx}" for fid, sx, _ in floats]) if floats else {}
    n_flt_ok = n_flt_tie = 0
    for fid, sx, want in floats:
        got = fres.get(fid, ["?", "?"])
        if got[0] == "fmt" and got[1] == want:
            n_flt_ok += 1
        elif got[0] == "fmt" and halfway_tie(sx, got[1], want):
            n_flt_ok += 1
            n_flt_tie += 1
        else:
            ctx.broken_ties.append(("showFloat (%g) ≠ Rust shortest digits", f"{sx}: lean {got} rust {want}"))

    # ---- definitions the derive cannot handle
    n_rej_ok = 0
    rej_kinds = collections.Counter()
    for pid, d in rej.items():
        kind = d["expect_reject"]
        payload = {"id": pid, "kind": kind, "src": d.get("src")}
        if "panic" in d:
            ctx.report({"oracle": "crash", "where": "reject:" + kind}, f"the compiler panics on a definition the derive cannot handle ({kind}): {d['panic'][:160]}", payload)
        elif "reject" in d:
            stage, msg = d["reject"]
            rej_kinds[(kind, stage)] += 1
            if stage in ("lower", "typer") and msg.strip():
                n_rej_ok += 1
            else:
                ctx.report({"oracle": "late-reject", "kind": kind, "stage": stage},
                           f"a definition the derive cannot handle ({kind}) is rejected only in `{stage}`: {msg[:160]}", payload)
        else:
            ctx.report({"oracle": "accepted-unsupported", "kind": kind}, f"a definition the derive cannot handle ({kind}) is accepted", payload)

    if ctx.replay:
        try:
            want = json.load(open(ctx.replay)).get("signature")
            ctx.violations = [v for v in ctx.violations if v[0] == want]
            ctx.notes.append(f"replay: the whole seeded run is repeated; only violations with signature {want} are reported")
        except Exception as e:
            ctx.broken_ties.append(("replay file", str(e)))
    ctx.violations.sort(key=lambda v: len(v[2].get("src") or "x" * 10**6))
    cov = {
        "evaluations": len(gen) + len(rej) + n_probe + n_helper, "distinct_nontrivial": len(distinct) + n_rej_ok + n_probe_ok + n_helper_ok,
        "rule": "one case = one generated program (1-4 derived struct/enum definitions, 1-4 values, printing every to_json then every "
                "to_string); non-trivial = compiled and printed; distinct by stdout. Reject stream: one hand-listed definition per "
                "unsupported field/payload kind x {ToJson, ToString}",
        "programs_by_stream": {f"{k[0]}:{k[1]}": v for k, v in sorted(streams.items())},
        "compiled": n_ok,
        "L1_text_comparisons": {"checked": n_l1, "equal_to_model": n_l1_ok, "core_under_Sem_equal": n_core_ok},
        "L1_generated_impl_AST": {"programs": n_ast, "equal_to_model(genString/genJson)": n_ast_ok},
        "model_diffs": (n_l1 - n_l1_ok) + (n_ast - n_ast_ok),
        "oracle_json_lines": {"checked": n_json_lines, "decode_to_value(python json vs serde_json)": n_json_ok,
                              "of_which_only_wellformed(non-finite float inside)": n_nonfinite_wellformed},
        "oracle_to_string": {"checked": n_str, "equal_to_join_rendering": n_str_ok},
        "jsonRead_vs_python_json": {"lines": n_reader, "same_parse": n_reader_agree},
        "attribute_surface_probes": {"programs": n_probe, "as_required": n_probe_ok, "derive::expand_output_equals_model_selection": n_probe_tie,
                                     "by_expectation_and_outcome": {f"{k[0]}->{k[1]}": v for k, v in sorted(probe_hist.items())}},
        "helper_hygiene_projects(library package)": {"projects": n_helper, "as_required": n_helper_ok, "model_hygienic_agrees": n_helper_tie,
                                                     "by_shape_and_outcome": {f"{k[0]}->{k[1]}": v for k, v in sorted(helper_hist.items())}},
        "attribute_lowering_tie(Model/Lower.lean vs ast::lower on the real trees)": {k: v for k, v in lower_cov.items() if k.split("attribute_lowering_")[-1] in
                                                                                     ("texts", "model_equals_real", "streams")},
        "corpus_and_witness_programs": {"programs": n_corpus, "ok": n_corpus_ok, "with_output_recorded_from_real_Go": n_recorded,
                                        "recorded_output_reproduced": n_recorded_ok},
        "float_%g_cross_validation": {"floats": len(floats), "same_text": n_flt_ok,
                                      "of_which_exact_halfway_ties(Go: to even; Rust: up)": n_flt_tie},
        "reject_stream": {"programs": len(rej), "rejected_in_lower_or_typer": n_rej_ok,
                          "by_kind_stage": {f"{k[0]}@{k[1]}": v for k, v in sorted(rej_kinds.items())}},
        "impl_oracle_failures": len(ctx.violations) + sum(h["count"] for h in ctx.known_hits),
        "generator_distribution": feats,
        "samples": samples,
    }
    ctx.assumptions += [
        "Go.Sem (Model/GoSem.lean) stands for the Go runtime: there is no Go toolchain; fmt's %d/%g/%q/%04x and []rune/string conversions are our reading of the Go spec",
        "floats: a value carries its %g rendering in the model (theorems assume it is a JSON number); Sem.showFloat's shortest-digit search is validated against Rust's shortest digits, not proved",
        "a struct spelled like an enum variant cannot be constructed at all (the constructor name wins in name resolution); such programs are outside the generator",
    ]
    tb = ["Lean 4 kernel", "axioms: " + ",".join(ctx.proof["axioms"] or ["none"]), "Go.Sem / Sem", "tools/extract.py (derive anchors)",
          "harness/src/c18.rs (generator, serde_json spec writer)", "Python json module (independent reader)", "tools/props/c18.py"]
    return ctx.finish("proof", cov, tb, "lake build GomlVerif.Props.C18 && lake env lean Axioms.lean (#print axioms)")
