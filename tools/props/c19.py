"""C19 — generated names are unique and never capture Go or runtime names.

proof:   lean/GomlVerif/Props/C19.lean over Model/Mangle.lean (+ Gen tables regenerated from the Rust)
tie:     (A) every public encoder, real vs model, on all identifiers ≤ 4 over {a _ 0 T # / : é} and on
             types (exhaustive depth ≤ 2 over a small atom set, seeded random to depth 4);
         (B) names the model predicts for whole programs must be declared in the real goast::File
oracle:  on the real goast::File only (harness/src/goscope.rs): one declaration per name and scope,
         legal identifiers, every reference resolves to the declaration that was meant, and the
         resolution shape is invariant under renaming the user identifier (vs. the benign baseline)
"""
import collections, json, os, re, sys
import vlib

sys.path.insert(0, os.path.dirname(os.path.dirname(os.path.abspath(__file__))))

GO_KEYWORDS = {"break", "case", "chan", "const", "continue", "default", "defer", "else", "fallthrough", "for", "func", "go",
               "goto", "if", "import", "interface", "map", "package", "range", "return", "select", "struct", "switch", "type", "var"}
LEGAL = re.compile(r"^[A-Za-z_][A-Za-z_0-9]*$")
ENC_COLS = ["encode_ty", "go_type_name_for", "ty_compact", "trait_impl_fn_name", "inherent_method_fn_name", "ref_struct_name",
            "ref_helper_fn_name"]


def parse_failures(text):
    """((kind name "detail") …) written by harness failures_text"""
    out, i = [], 0
    for m in re.finditer(r'\(([a-z-]+) ("(?:[^"\\]|\\.)*"|\S+) ("(?:[^"\\]|\\.)*"|[^()\s]+)\)', text):
        out.append((m.group(1), m.group(2).strip('"'), m.group(3).strip('"')))
    return out


def c17_sexp(text):
    from props import c17
    return c17.sexp_parse(text)


def expectations(tid, name):
    """(model case, kind of real declaration it must be among, which output column(s))"""
    N = name
    E = []
    if tid == "fn":
        E.append((f"(fn {N})", "fn"))
    elif tid == "struct":
        E += [(f"(ident {N})", "type"), (f"(tyname (tuple (struct {N}) TInt32))", "type"), (f"(refstruct (struct {N}))", "type"),
              (f"(helper ref (ref (struct {N})))", "fn"), (f"(helper ref_get (ref (struct {N})))", "fn"),
              (f"(dyn Show (struct {N}) show)", "dyn"), (f"(implgo Show (struct {N}) show)", "fn"), (f"(inhgo (struct {N}) geta)", "fn")]
    elif tid == "enum":
        E += [(f"(ident {N})", "type"), (f"(monotygo Gen ((enum {N})))", "type"), (f"(refstruct (enum {N}))", "type"),
              (f"(helper ref (ref (enum {N})))", "fn"), (f"(specgo pick ())", "fn")]
    elif tid == "variant":
        E += [(f"(variant ((E {N} Other) (F Cc Dd)) () E {N})", "type")]
    elif tid == "trait":
        E += [(f"(dyn {N} (struct P) m)", "dyn"), (f"(dyn {N} TInt32 m)", "dyn"), (f"(specgo via ((T (struct P))))", "fn"),
              (f"(specgo via ((T TInt32)))", "fn")]
    elif tid == "method":
        E += [(f"(dyn Tr (struct P) {N})", "dyn"), (f"(implgo Tr TInt32 {N})", "fn"), (f"(inhgo (struct Q) {N})", "fn")]
    elif tid == "tparam":
        E += [(f"(specgo idf (({N} TInt32)))", "fn"), (f"(specgo idf (({N} TString)))", "fn"), (f"(monotygo Opt (TInt32))", "type"),
              (f"(specgo get (({N} TInt32)))", "fn")]
    elif tid == "generic-fn":
        E += [(f"(specgo {N} ((T TInt32)))", "fn"), (f"(specgo {N} ((T TString)))", "fn"),
              (f"(specgo {N} ((T (tuple TInt32 TInt32))))", "fn")]
    elif tid == "closure":
        E += [(f"(closure {N} 0)", "closure"), ("(closure other 1)", "closure")]
    return E


def run(ctx):
    ctx.extract()
    lean_ok = ctx.build_lean(["GomlVerif.Props.C19", "GomlVerif.Props.C19Compact"])
    if not ctx.build_harness():
        return ctx.finish("proof", {"evaluations": 0, "distinct_nontrivial": 0}, [], "lake build")
    try:
        import extract
        rt = extract.runtime_tables()
        relied = rt["relied"]
    except Exception as e:  # reported by ctx.extract() already
        rt, relied = {}, ["any"]
    ok, out = ctx.gv("c19", ["--relied", ",".join(relied)])
    enc = vlib.read_tsv(os.path.join(ctx.run_dir, "c19.enc.tsv")) if ok else []
    prog = vlib.read_tsv(os.path.join(ctx.run_dir, "c19.prog.tsv")) if ok else []
    stats = open(os.path.join(ctx.run_dir, "c19.stats.txt")).read().strip().splitlines() if ok else []
    have_model = os.path.exists(vlib.MODEL)

    # ------------------------------------------------------------------ (A) encoders
    cases = [r for r in enc if len(r) >= 4 and r[1] == "CASE"]
    pairs = [r for r in enc if len(r) >= 7 and r[1] == "PAIR"]
    model = ctx.model("c19", [f"{r[0]}\t{r[2]}" for r in cases]) if (cases and have_model) else {}
    n_eq = n_ident = n_ty = n_escaped = n_panic = 0
    diffs = collections.Counter()
    first_diff = {}
    distinct = set()
    by_out = {c: collections.defaultdict(set) for c in ENC_COLS + ["go_ident"]}
    samples = []
    for r in cases:
        cid, sexp, real = r[0], r[2], r[3:]
        m = model.get(cid)
        if m is None:
            ctx.broken_ties.append(("model driver", f"{cid}: no output")); continue
        if cid.startswith("i"):
            n_ident += 1
            src = sexp
            got = real[0] if real else ""
            # property-level oracle on the REAL output, no model involved
            if not LEGAL.match(got) or got in GO_KEYWORDS:
                ctx.report({"oracle": "encoder", "kind": "illegal-go-identifier", "encoder": "go_ident"},
                           "go_ident returned a string that is not a legal Go identifier or is a keyword",
                           {"input": sexp, "output": got})
            if got.startswith("_goml_"):
                n_escaped += 1
                distinct.add(sexp)
            by_out["go_ident"][got].add(sexp)
            if m[:1] == [got]:
                n_eq += 1
            else:
                diffs["go_ident"] += 1
                first_diff.setdefault("go_ident", {"input": sexp, "impl": got, "model": m[:1]})
            if len(samples) < 2 and got.startswith("_goml_") and len(sexp) > 12:
                samples.append({"encoder": "go_ident", "input": sexp, "impl": got, "model": m[0] if m else None})
        else:
            n_ty += 1
            distinct.add(sexp.rsplit(" ", 2)[0])
            tykey = sexp.rsplit(" ", 2)[0]
            allok = True
            for k, col in enumerate(ENC_COLS):
                g = real[k] if k < len(real) else "<missing>"
                mm = m[k] if k < len(m) else "<missing>"
                if g == "PANIC":
                    n_panic += 1
                if g != mm:
                    allok = False
                    diffs[col] += 1
                    first_diff.setdefault(col, {"input": sexp, "impl": g, "model": mm})
                if col in ("encode_ty", "go_type_name_for", "ty_compact", "ref_struct_name") and g != "PANIC":
                    by_out[col][g].add(tykey)
            # go identifiers built from types must be legal too (helper names are emitted verbatim)
            for k in (5, 6):
                g = real[k] if k < len(real) else ""
                if g != "PANIC" and (not LEGAL.match(g) or g in GO_KEYWORDS):
                    ctx.report({"oracle": "encoder", "kind": "illegal-go-identifier", "encoder": ENC_COLS[k]},
                               f"{ENC_COLS[k]} returned a string that is not a legal Go identifier", {"input": sexp, "output": g})
            n_eq += allok
            if len(samples) < 4 and "tuple" in sexp and "ref" in sexp and len(sexp) < 120:
                samples.append({"encoder": "types", "input": sexp, "impl": real, "model": m})
    for col, c in diffs.items():
        ctx.broken_ties.append((f"model≠impl: {col}", f"{c} cases, first: {json.dumps(first_diff[col], ensure_ascii=False)}"))
    collisions = {}
    for col, groups in by_out.items():
        coll = [(o, sorted(v)) for o, v in groups.items() if len(v) > 1]
        collisions[col] = {"colliding_outputs": len(coll),
                           "example": (lambda x: {"output": x[0], "inputs": x[1][:3]})(min(coll, key=lambda x: len(x[0]))) if coll else None}
    # the negative witnesses of Props/C19.lean must be real collisions of the real encoders
    stale = []
    for r in pairs:
        encname, x, y, ox, oy = r[2], r[3], r[4], r[5], r[6]
        if ox != oy:
            stale.append(f"{encname}: {x} ↦ {ox} but {y} ↦ {oy}")
    for s_ in stale:
        ctx.broken_ties.append(("negative witness is no longer a collision of the real encoder (update Props/C19.lean)", s_))

    # ------------------------------------------------------------------ (B) whole programs
    rows = [r for r in prog if len(r) >= 13 and r[1] in ("PROG", "WITNESS")]
    corpus = [r for r in prog if len(r) >= 5 and r[1] == "CORPUS"]
    base = {}
    for r in rows:
        if r[1] == "PROG" and r[4] == "zq":
            base[r[2]] = r
    for tid, r in base.items():
        if r[6] != "ok" or parse_failures(r[7]):
            ctx.broken_ties.append(("template baseline", f"template {tid} with the benign name: {r[6]} {r[7][:300]}"))
    outcome_count = collections.Counter()
    n_prog_ok = 0
    expect_lines, expect_meta = [], []
    for r in rows:
        pid, kind, tid, role, name, cls, outcome, fails, shape, top, locs, uni, src = r[:13]
        src = vlib.unesc(src)
        if name == "fmt":
            cls = "import-name"
        fl = parse_failures(fails)
        payload = {"id": pid, "template": tid, "role": role, "name": name, "name_class": cls, "outcome": outcome,
                   "failures": fl[:6], "src": src}
        o = outcome.split(":")[0]
        outcome_count[(kind, o)] += 1
        if kind == "WITNESS":
            if o == "ok":
                n_prog_ok += 1
                for k in sorted(set(f[0] for f in fl)):
                    ctx.report({"oracle": "witness", "witness": tid, "kind": k},
                               f"{name}: the emitted Go file has {k} ({[f[1] for f in fl if f[0] == k][:2]})", payload)
            elif o == "panic":
                ctx.report({"oracle": "witness", "witness": tid, "kind": "compiler-panic"},
                           f"{name}: the compiler panics: {outcome[:120]}", payload)
            elif tid == "benign":
                ctx.broken_ties.append(("witness program", f"the benign control program is rejected: {outcome[:200]}"))
            else:
                ctx.notes.append(f"witness {tid} rejected by the compiler ({outcome[:100]}): no longer reachable")
            continue
        if o == "panic":
            ctx.report({"oracle": "crash", "role": role, "name_class": cls}, f"compiler panics when a {role} is named `{name}`: {outcome[:120]}", payload)
            continue
        if o != "ok":
            continue  # a rejected program is fine: the property is about accepted ones
        n_prog_ok += 1
        kinds = sorted(set(f[0] for f in fl))
        dup_names = {f[1] for f in fl if f[0] == "toplevel-duplicate"}
        srole = "type" if role == "variant" else role   # a variant is emitted as a struct type
        for k in kinds:
            who = [f[1] for f in fl if f[0] == k]
            # a reference that lands on the wrong one of two equally named declarations is the same defect as the duplicate
            if k != "toplevel-duplicate" and who and all(w in dup_names for w in who):
                continue
            ctx.report({"oracle": "go-scope", "kind": k, "role": srole, "name_class": cls},
                       f"a {role} named `{name}` ({cls}): emitted Go has {k} on {who[:2]}", payload)
        b = base.get(tid)
        if not kinds and b is not None and b[6] == "ok" and shape != b[8]:
            ctx.report({"oracle": "rename-shape", "role": role, "name_class": cls},
                       f"renaming the {role} `zq` to `{name}` changes which declaration identifiers resolve to", payload)
        if not kinds:
            for case, where in expectations(tid, name):
                expect_lines.append(f"e{len(expect_lines)}\t{case}")
                expect_meta.append((pid, tid, name, case, where, top, locs))
        if tid == "local" and not kinds:
            for L in locs.split():
                m = re.match(r"^(.*)__(\d+)$", L)
                if m and (m.group(1) == name or m.group(1) == "_goml_" + name):
                    expect_lines.append(f"e{len(expect_lines)}\t(local {name} {m.group(2)})")
                    expect_meta.append((pid, tid, name, f"(local {name} {m.group(2)})", "local:" + L, top, locs))
    em = ctx.model("c19", expect_lines) if (expect_lines and have_model) else {}
    n_expect = n_expect_ok = 0
    for k, (pid, tid, name, case, where, top, locs) in enumerate(expect_meta):
        got = em.get(f"e{k}")
        if got is None:
            continue
        tops = dict((x.split(":", 1)[1], x.split(":", 1)[0]) for x in top.split())
        fns = {n for n, kd in tops.items() if kd == "fn"}
        types = {n for n, kd in tops.items() if kd in ("struct", "interface", "alias")}
        checks = []
        if where == "fn":
            checks = [(got[0], fns)]
        elif where == "type":
            checks = [(got[0], types)]
        elif where == "dyn":
            checks = [(got[0], types), (got[1], types), (got[2], fns), (got[3], fns), (got[4], fns)]
        elif where == "closure":
            checks = [(got[0], types), (got[1], fns)]
        elif where.startswith("local:"):
            checks = [(got[0], {where[6:]})]
        for want, pool in checks:
            n_expect += 1
            if want in pool:
                n_expect_ok += 1
            else:
                ctx.broken_ties.append(("model≠impl: whole-program name",
                                        f"{pid} template={tid} name={name}: model predicts `{want}` for {case}; declared: {sorted(pool)[:12]}"))
    for r in corpus:
        fl = parse_failures(r[4])
        for k in sorted(set(f[0] for f in fl)):
            ctx.report({"oracle": "go-scope", "kind": k, "role": "corpus"}, f"corpus program {r[2]}: emitted Go has {k}",
                       {"program": r[2], "failures": fl[:6]})

    # ------------------------------------------------------------------ (C) instance-name collision hunt
    from props import c01
    iprogs, ifeats = c01.collect(ctx, sub="c19inst", extra=["--relied", ",".join(relied)])
    iprogs = c01.evaluate(ctx, iprogs)
    igc = c01.gocheck(ctx, [f"{pid}\t{d['stages']['go']}" for pid, d in iprogs.items() if "go" in d["stages"]])
    irows = vlib.read_tsv(os.path.join(ctx.run_dir, "c19inst.cases.tsv"))
    inst_meta = {r[0]: r for r in irows if len(r) >= 6 and r[1] == "INST"}
    n_inst = n_inst_ok = n_inst_names = 0
    inst_fam = collections.Counter()
    inst_out = {}
    inst_clean = set()
    for pid, d in sorted(iprogs.items()):
        if not pid.startswith("inst/"):
            continue
        meta = inst_meta.get(pid)
        family, variant = (meta[2], meta[3]) if meta else ("?", "?")
        n_inst += 1
        inst_fam[family] += 1
        payload = {"id": pid, "family": family, "variant": variant, "src": d.get("src")}
        case = pid.split("/")[2] if pid.count("/") >= 3 else pid
        sigbase = {"oracle": "instance-names", "family": family, "case": case}
        # one report per program: the first oracle that fails, in this order
        def fail(kind, what, extra=None):
            ctx.report(dict(sigbase, kind=kind), f"{pid}: {what}", dict(payload, **(extra or {})))
        if "panic" in d:
            inst_out[pid] = ("panic", d["panic"][:80])
            fail("compiler-panic", f"the compiler panics: {d['panic'][:140]}", {"outcome": d["panic"][:300]})
            continue
        if "reject" in d:
            inst_out[pid] = ("reject", d["reject"][1][:80])
            fail("rejected", f"a well-formed program is rejected: {d['reject'][1][:140]}", {"outcome": d["reject"]})
            continue
        o = d.get("out", {})
        ref = o.get("core")
        if ref is None or ref[0].startswith("stuck"):
            ref = o.get("mono")
        go = o.get("go")
        inst_out[pid] = (go[0], vlib.unesc(go[1])) if go else ("?", "")
        tables = c17_sexp(meta[4]) if meta else []
        n_inst_names += sum(len(row[2]) for row in tables)
        # (a) the names produced for the two distinct (base, type-args) requests are distinct: two per base
        shared = [(row[0], row[1], row[2]) for row in tables if len(set(row[2])) < 2 or len(set(row[2])) != len(row[2])]
        if shared:
            kind, base, names = shared[0]
            fail(f"{kind}-instances-share-a-name",
                 f"the two instances of {kind} {base} are registered under {sorted(set(names))} ({len(names)} definitions)", {"instance_table": tables})
            continue
        scope = c17_sexp(meta[5]) if meta else []
        if scope:
            fail("go-scope:" + scope[0][0], f"emitted Go has {scope[0][0]} on {scope[0][1]}", {"failures": scope[:6], "instance_table": tables})
            continue
        # (b) valid Go, and the Go behaves like Core
        g = igc.get(pid)
        if g is not None and g[0] == "err":
            fail("go-check-rejects", f"the emitted Go is not valid: {g[1][:140]}", {"go_check": g[1][:400]})
            continue
        if ref is None or go is None or ref[0] in ("decode-error", "parse-error") or go[0] in ("decode-error", "parse-error"):
            ctx.broken_ties.append(("sem driver", f"{pid}: core/mono={ref} go={go}")); continue
        if ref[0].startswith("stuck") or ref[0] == "fuel":
            ctx.broken_ties.append(("Sem cannot run the instance program", f"{pid}: {ref[0]}")); continue
        if (go[0], go[1]) != (ref[0], ref[1]):
            fail("go-behaves-unlike-core", f"Go.Sem prints {vlib.unesc(go[1])[:80]!r} ({go[0]}), Sem of Core {vlib.unesc(ref[1])[:80]!r} ({ref[0]})",
                 {"go": {"status": go[0], "stdout": vlib.unesc(go[1])[:400]}, "core": {"status": ref[0], "stdout": vlib.unesc(ref[1])[:400]}})
            continue
        inst_clean.add(pid)
        n_inst_ok += 1
        if len(samples) < 7 and variant == "orig" and family in ("tuple-grouping", "generic-application-vs-underscore-name"):
            samples.append({"instance_case": pid, "instance_table": tables, "stdout": vlib.unesc(go[1])[:160]})

    # ------------------------------------------------------------------ (E) instance-name universe (harness/src/c19univ.rs)
    # every type of an enumerated universe instantiates Opt / Box / none in a program of its own; the names are the
    # REAL ones (mono_enums / mono_structs keys, Mono function names, real go_ident of them).  Model-free oracle:
    # as many distinct names as distinct types, per kind of name — the harness turns every shared name into a pair
    # program of the hunt above (family `universe`); here the count is re-derived independently, so a shared name
    # without a reported pair program is a broken tie, and panics / malformed instance tables are reported.
    upath = os.path.join(ctx.run_dir, "c19inst.univ.tsv")
    urows = vlib.read_tsv(upath) if os.path.exists(upath) else []
    univ = [r for r in urows if len(r) >= 10 and r[1] == "UNIV"]
    univ_summary = next((r[1] for r in urows if r[0] == "#UNIV"), "")
    univ_names = next((r[1] for r in urows if r[0] == "#UNIVNAMES"), "")
    n_univ_shared = 0
    univ_shapes = collections.Counter(r[2] for r in univ)
    for col, what in ((5, "enum-instance"), (6, "struct-instance"), (7, "fn-instance"), (8, "go-type"), (9, "go-fn")):
        groups = collections.defaultdict(list)
        for r in univ:
            groups[r[col]].append(r[3])
        shared = {k: v for k, v in groups.items() if len(set(v)) > 1}
        n_univ_shared += len(shared)
        if shared and not any(pid.startswith("inst/universe/") for pid in iprogs):
            k, v = sorted(shared.items())[0]
            ctx.broken_ties.append(("instance universe", f"{len(shared)} {what} names are shared by distinct types (e.g. {k!r}: {v[:2]}) but no pair program was emitted"))
    for r in urows:
        if len(r) >= 6 and r[1] == "UNIVPANIC":
            ctx.report({"oracle": "instance-universe", "kind": "compiler-panic", "shape": r[2]},
                       f"instantiating Opt/Box/none at `{vlib.unesc(r[3])}` alone panics the compiler: {vlib.unesc(r[4])[:140]}",
                       {"type": vlib.unesc(r[3]), "outcome": vlib.unesc(r[4])[:400], "src": vlib.unesc(r[5])})
        elif len(r) >= 6 and r[1] == "UNIVBAD":
            ctx.report({"oracle": "instance-universe", "kind": "instance-table-shape", "shape": r[2]},
                       f"one request per base at `{vlib.unesc(r[3])}`: {vlib.unesc(r[4])[:200]}",
                       {"type": vlib.unesc(r[3]), "detail": vlib.unesc(r[4])[:400], "src": vlib.unesc(r[5])})
    if ok and not univ:
        ctx.broken_ties.append(("instance universe", "gv c19inst produced no UNIV rows"))
    # tie: the model's monoTypeName / specNameFor (+ goIdent) predict the real names of every universe type
    n_univ_model = n_univ_model_ok = 0
    if univ and have_model:
        ulines = []
        for r in univ:
            ulines.append(f"{r[0]}t\t(monotygo Opt ({r[4]}))")
            ulines.append(f"{r[0]}f\t(specgo none ((T {r[4]})))")
        um = ctx.model("c19", ulines)
        first_bad = None
        for r in univ:
            for suffix, want in (("t", r[8]), ("f", r[9])):
                got = um.get(r[0] + suffix)
                if got is None:
                    continue
                n_univ_model += 1
                if got[:1] == [vlib.unesc(want)] or got[:1] == [want]:
                    n_univ_model_ok += 1
                elif first_bad is None:
                    first_bad = {"type": vlib.unesc(r[3]), "model": got[:1], "impl": want}
        if first_bad is not None:
            ctx.broken_ties.append(("model≠impl: instance name over the universe",
                                    f"{n_univ_model - n_univ_model_ok} names, first: {json.dumps(first_bad, ensure_ascii=False)}"))
    if len(samples) < 12 and univ:
        r = next((r for r in univ if r[2] == "func" and "(" in r[3][1:]), univ[-1])
        samples.append({"universe_type": vlib.unesc(r[3]), "enum_instance": r[5], "struct_instance": r[6], "fn_instance": r[7], "go_type": r[8], "go_fn": r[9]})

    # ------------------------------------------------------------------ (D) identifier-level collisions
    ident_meta = {r[0]: r for r in irows if len(r) >= 13 and r[1] == "IDENT"}
    n_id = n_id_ok = n_id_unwritable = 0
    id_kinds = collections.Counter()
    id_patterns = collections.Counter()
    control_shape = {}
    for pid, m in ident_meta.items():
        if m[3] == "control" and pid in iprogs and "reject" not in iprogs[pid] and "panic" not in iprogs[pid]:
            control_shape.setdefault(m[2], m[11])
    for pid, m in sorted(ident_meta.items()):
        kind, pattern, word, an, bn, ga, gb, want, declared, shape, scope = m[2], m[3], m[4], m[5], m[6], m[7], m[8], m[9], m[10].split(), m[11], m[12]
        d = iprogs.get(pid, {})
        n_id += 1
        payload = {"id": pid, "item_kind": kind, "names": [an, bn], "real_go_ident": [ga, gb], "src": d.get("src")}
        sig = {"oracle": "ident-collision", "item_kind": kind, "pattern": pattern if pattern != "fold" else "fold:" + word}
        def fail(failure, what, extra=None):
            ctx.report(dict(sig, failure=failure), f"{pid}: {what}", dict(payload, **(extra or {})))
        if "panic" in d:
            fail("compiler-panic", f"the compiler panics: {d['panic'][:140]}", {"outcome": d["panic"][:300]})
            continue
        if "reject" in d:
            if d["reject"][0] in ("parser", "lower"):
                n_id_unwritable += 1        # one of the two names is not an identifier of the language
            elif pattern == "control":
                ctx.broken_ties.append(("ident template", f"{pid}: the control program is rejected: {d['reject'][1][:200]}"))
            else:
                # both names lex as identifiers and the control of this kind compiles: rejecting the pair is a
                # front-end matter (e.g. `main`), recorded but not a naming violation
                ctx.notes.append(f"{pid} rejected at {d['reject'][0]}: {d['reject'][1][:80]}") if len(ctx.notes) < 12 else None
                n_id_unwritable += 1
            continue
        id_kinds[kind] += 1
        id_patterns[pattern] += 1
        # injectivity of the REAL go_ident on the two declared source names (item kinds emitted under go_ident;
        # the others — locals, inherent methods, traits, type parameters — are judged by what the Go file does)
        if want != "-" and ga == gb:
            fail("go-ident-merges-two-source-names", f"go_ident({an!r}) = go_ident({bn!r}) = {ga!r}")
            continue
        # … and where the item is emitted under go_ident, both must be among the identifiers the Go AST declares there
        if want != "-" and (ga not in declared or gb not in declared):
            fail("declared-names-differ-from-go-ident", f"{want}: go_ident gives {[ga, gb]}, the Go AST declares {declared[:12]}", {"declared": declared})
            continue
        sc = c17_sexp(scope)
        if sc:
            fail("go-scope:" + sc[0][0], f"emitted Go has {sc[0][0]} on {sc[0][1]}", {"failures": sc[:6]})
            continue
        g = igc.get(pid)
        if g is not None and g[0] == "err" and kind not in ("extern-type", "extern-fn"):
            fail("go-check-rejects", f"the emitted Go is not valid: {g[1][:140]}", {"go_check": g[1][:400]})
            continue
        if kind in control_shape and shape != control_shape[kind]:
            fail("resolution-shape-differs-from-control", "identifiers resolve to other declarations than with the names zqa/zqb",
                 {"shape": shape, "control_shape": control_shape[kind]})
            continue
        o = d.get("out", {})
        ref = o.get("core")
        if ref is None or ref[0].startswith("stuck"):
            ref = o.get("mono")
        go = o.get("go")
        if kind not in ("extern-type", "extern-fn"):
            if ref is None or go is None or ref[0] in ("decode-error", "parse-error") or go[0] in ("decode-error", "parse-error"):
                ctx.broken_ties.append(("sem driver", f"{pid}: core/mono={ref} go={go}")); continue
            if ref[0].startswith("stuck") or ref[0] == "fuel":
                ctx.broken_ties.append(("Sem cannot run the identifier program", f"{pid}: {ref[0]}")); continue
            if (go[0], go[1]) != (ref[0], ref[1]):
                fail("go-behaves-unlike-core", f"Go.Sem prints {vlib.unesc(go[1])[:80]!r} ({go[0]}), Sem of Core {vlib.unesc(ref[1])[:80]!r} ({ref[0]})",
                     {"go": {"status": go[0], "stdout": vlib.unesc(go[1])[:300]}, "core": {"status": ref[0], "stdout": vlib.unesc(ref[1])[:300]}})
                continue
        n_id_ok += 1
        if len(samples) < 9 and pattern == "w_" and kind in ("fn", "field") and word in ("select", "default"):
            samples.append({"ident_case": pid, "real_go_ident": [ga, gb], "declared": declared[-6:]})
    # (c) a consistent renaming of the user identifiers does not change the outcome
    n_ren = n_ren_ok = 0
    for pid, oc in sorted(inst_out.items()):
        if not pid.endswith("/renamed"):
            continue
        orig = inst_out.get(pid[:-len("/renamed")] + "/orig")
        if orig is None:
            continue
        # a program that already failed an oracle above is reported there
        if pid not in inst_clean or (pid[:-len("/renamed")] + "/orig") not in inst_clean:
            continue
        n_ren += 1
        if orig == oc:
            n_ren_ok += 1
        else:
            family = inst_meta[pid][2] if pid in inst_meta else "?"
            ctx.report({"oracle": "instance-rename", "family": family},
                       f"{pid[:-8]}: renaming the user identifiers changes the outcome: {orig[0]} {orig[1][:60]!r} -> {oc[0]} {oc[1][:60]!r}",
                       {"id": pid, "original": {"status": orig[0], "stdout": orig[1][:300]}, "renamed": {"status": oc[0], "stdout": oc[1][:300]},
                        "src": iprogs[pid[:-len('/renamed')] + '/orig'].get("src"), "src_renamed": iprogs[pid].get("src")})
    n_corpus_ok = sum(1 for r in corpus if r[3] == "ok")
    ctx.violations.sort(key=lambda v: len(v[2].get("src", "")))

    cov = {
        "evaluations": len(cases) + len(rows) + len(corpus) + n_inst + n_id + len(univ),
        "distinct_nontrivial": len(distinct) + n_prog_ok + n_inst_ok + n_id_ok + sum(1 for r in univ if r[2] != "prim"),
        "instance_collision_hunt": {"programs": n_inst, "by_family": dict(inst_fam), "programs_all_oracles_clean": n_inst_ok,
                                    "instance_names_read_from_real_mono_tables": n_inst_names,
                                    "identifier_pairs": {"programs": n_id, "accepted_and_clean": n_id_ok, "not_writable_or_rejected": n_id_unwritable,
                                                         "accepted_by_item_kind": dict(id_kinds), "accepted_by_pattern": dict(id_patterns)},
                                    "renamed_variants": n_ren, "renamed_variants_same_outcome": n_ren_ok, "generator": ifeats},
        "instance_name_universe": {"types_instantiated": len(univ), "by_outer_constructor": dict(univ_shapes),
                                   "names_shared_by_distinct_types": n_univ_shared,
                                   "model_predictions_checked": n_univ_model, "model_predictions_equal": n_univ_model_ok,
                                   "harness_summary": univ_summary, "derived_adversarial_names_sample": univ_names[:600]},
        "rule": "encoder cases: distinct inputs, non-trivial = identifier that takes the escaping branch or any type (all seven type "
                "encoders are compared per type); programs: accepted by the real pipeline (one template × one adversarial name each)",
        "input_distribution": stats,
        "encoder_cases": {"identifiers": n_ident, "escaped": n_escaped, "types": n_ty, "impl_panics_matched": n_panic,
                          "rows_all_equal": n_eq},
        "model_diffs": sum(diffs.values()),
        "real_encoder_collisions": collisions,
        "negative_witnesses_real": len(pairs) - len(stale), "negative_witnesses_stale": len(stale),
        "programs": len(rows) + len(corpus),
        "program_outcomes": {f"{k[0]}:{k[1]}": v for k, v in sorted(outcome_count.items())},
        "whole_program_name_predictions": {"checked": n_expect, "declared_in_real_output": n_expect_ok},
        "corpus_programs_clean": f"{sum(1 for r in corpus if r[3] == 'ok' and not parse_failures(r[4]))}/{len(corpus)}",
        "impl_oracle_failures": len(ctx.violations) + sum(h["count"] for h in ctx.known_hits),
        "samples": samples,
    }
    ctx.assumptions += [
        "Go's scoping of the emitted subset is what harness/src/goscope.rs implements (package scope, function scope shared by "
        "parameters and the outermost block, one scope per nested block / switch clause, a name is in scope after its declaration)",
        "a reference was 'meant' for a package-level or predeclared entity when the type the backend annotated it with differs from "
        "the type of the local it resolves to (annotations on package-level functions are approximate, so there only predeclared names are judged)",
        "identifiers are compared as the backend stores them in goast (the pretty-printer prints them verbatim)",
        "no Go toolchain: 'duplicate declaration' is judged by the scope oracle, not by go build",
    ]
    tb = ["Lean 4 kernel", "axioms: " + ",".join(ctx.proof["axioms"] or ["none"]), "tools/extract.py (keyword / spelling / runtime-name tables)",
          "harness/src/c19.rs (enumerators, templates), harness/src/goscope.rs (scope oracle)", "tools/props/c19.py (comparison, signatures)"]
    return ctx.finish("proof", cov, tb, "lake build GomlVerif.Props.C19 && lake env lean Axioms.lean (#print axioms)")
