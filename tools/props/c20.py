"""C20 — editor queries: proof of the position logic + crash/hang search on the real queries
+ hover-vs-compiler and completion-validity differentials."""
import json, os, re
import vlib

OFFSET_ERR = "failed to get offset from line and column"


def generalise(msg):
    """complaint class of a diagnostic: user identifiers, numbers and type spellings blanked"""
    m = re.sub(r"<NAME>", "N", msg)
    m = re.sub(r"\b[A-Z][A-Za-z0-9_]*(::[A-Za-z0-9_]+)*(\([^)]*\))?", "_", m)
    m = re.sub(r"#", "_", m)
    return re.sub(r"\s+", " ", m).strip()


def iso_class(msg):
    """class of a compile-path complaint (the classification of harness/src/c16.rs)"""
    if "not imported in package" in msg:
        return "not-imported"
    if "Internal error" in msg or "ICE" in msg:
        return "internal"
    if "panic" in msg:
        return "panic"
    return "unresolved"


def multi_package(ctx):
    """the editor queries on multi-package projects — the worlds of the C16 generator (use forms in own / imported /
    transitively reachable / unrelated packages, chains, confusable names) and the C14 visibility catalogues — judged
    against the COMPILE path (`typecheck_with_packages`), which shares no dependency-environment loop with the
    editor's `typecheck_with_packages_and_results` (harness/src/c16e.rs, `gv c16e`)."""
    import time
    t0 = time.time()
    ok, out = ctx.gv("c16e")
    path = os.path.join(ctx.run_dir, "c16e.cases.tsv")
    rows = vlib.read_tsv(path) if ok and os.path.exists(path) else []
    QS = [r for r in rows if len(r) > 1 and r[1] == "QS"]
    QH = [r for r in rows if len(r) > 1 and r[1] == "QH"]
    QC = [r for r in rows if len(r) > 1 and r[1] == "QC"]
    QV = [r for r in rows if len(r) > 1 and r[1] == "QV"]
    st = {"projects": len(QS), "projects_by_kind": {}, "typed": 0, "graph_error_projects_queried_once": 0,
          "verdicts_agree": 0, "verdict_pairs": {},
          "hover": {"asked": len(QH), "judged": 0, "agree": 0, "not_judged_both_reject_alike": 0, "differ_on_rejected_program": 0},
          "completion_requests": {}, "offers_by_package_relation": {}, "items_inserted": {}, "skipped": {}}
    if not QS:
        ctx.broken_ties.append(("multi-package queries", "gv c16e produced no rows"))
    for r in QS:
        r = r + [""] * 11
        cid, kind, payload, comp, edit, state, hov0 = r[0], r[2], r[3], r[4], r[5], r[6], r[7]
        st["projects_by_kind"][kind] = st["projects_by_kind"].get(kind, 0) + 1
        if state == "typed":
            st["typed"] += 1
        elif state == "untyped":
            st["graph_error_projects_queried_once"] += 1
        else:
            ctx.report({"oracle": "crash", "site": "multi-package:" + state}, f"the queries on project {cid} did not return ({state})",
                       {"id": cid, "world": payload})
        if vlib.unesc(hov0).startswith("panic:"):
            ctx.report({"oracle": "crash", "site": "multi-package hover on a project with a broken graph"}, vlib.unesc(hov0)[:200],
                       {"id": cid, "world": payload})
        pair = f"compile {comp.split()[0].strip('()')} / editor {edit.split()[0].strip('()')}"
        st["verdict_pairs"][pair] = st["verdict_pairs"].get(pair, 0) + 1
        if comp == edit:
            st["verdicts_agree"] += 1
        elif comp not in ("-", ""):
            kind_d = "editor-accepts-what-the-compiler-rejects" if edit == "(accept)" else \
                     "editor-rejects-what-the-compiler-accepts" if comp == "(accept)" else "other-diagnostic-classes"
            ctx.report({"oracle": "entry-points-agree", "kind": kind_d},
                       f"the editor's type check (typecheck_with_packages_and_results, behind hover/completions) says {edit} for a project "
                       f"the compiler's own type check says {comp} about: what the editor shows for this file is not what the compiler decides",
                       {"id": cid, "kind": kind, "world": payload, "compile_path": comp, "editor_path": edit})
    for r in QH:
        r = r + [""] * 14
        cid, kind, f, off, l, c, nk, word, ty, got, comp, edit, files = r[0], r[2], r[3], r[4], r[5], r[6], r[7], r[8], vlib.unesc(r[9]), vlib.unesc(r[10]), r[11], r[12], r[13]
        agree = got == "ok:" + ty
        if got.startswith("panic:"):
            ctx.report({"oracle": "crash", "site": "multi-package hover"}, got[:200], {"id": cid, "file": f, "line": int(l), "col": int(c), "files": vlib.unesc(files)})
            continue
        if comp == edit and comp != "(accept)":
            # a program both paths reject alike: its TAST is not "the type the compiler assigned"
            st["hover"]["not_judged_both_reject_alike"] += 1
            if not agree:
                st["hover"]["differ_on_rejected_program"] += 1
            continue
        st["hover"]["judged"] += 1
        if agree:
            st["hover"]["agree"] += 1
            continue
        rel = "no-hover" if not got.startswith("ok:") else "other-type"
        scope = "accepted-project" if comp == edit else "entry-points-disagree"
        where = "entry-file" if f == "main.gom" else "sibling-file-of-Main"
        ctx.report({"oracle": "hover-agreement", "scope": "multi-package:" + scope, "node": nk, "relation": rel, "file": where},
                   f"hover on `{word}` ({nk}) in {f} of a multi-package project reports `{got}`; the compiler's own type check types it `{ty}`"
                   + ("" if comp == edit else f" — and says {comp} about the project where the editor path says {edit}"),
                   {"id": cid, "file": f, "line": int(l), "col": int(c), "offset": int(off), "identifier": word, "tast_type": ty, "hover": got,
                    "compile_path": comp, "editor_path": edit, "src": vlib.unesc(files)})
    for r in QC:
        r = r + [""] * 12
        cid, kind, f, q, a, b, rel, listing, comp, edit, text = r[0], r[2], r[3], r[4], r[5], r[6], r[7], vlib.unesc(r[8]), r[9], r[10], r[11]
        key = f"{q}:{a}" if q == "colon" else "dot"
        st["completion_requests"][key] = st["completion_requests"].get(key, 0) + 1
        if listing.startswith("panic:"):
            ctx.report({"oracle": "crash", "site": f"multi-package {q}-completions"}, listing[:200], {"id": cid, "file": f, "src": vlib.unesc(text)})
            continue
        n = len(listing.split()) if listing else 0
        k2 = f"{q}:{rel}:{'some' if n else 'none'}"
        st["offers_by_package_relation"][k2] = st["offers_by_package_relation"].get(k2, 0) + 1
    by_req = {}
    for r in QV:
        r = r + [""] * 14
        cid, kind, f, q, a, b, rel, name, ik, verdict, comp, edit, files = r[0], r[2], r[3], r[4], r[5], r[6], r[7], r[8], r[9], vlib.unesc(r[10]), r[11], r[12], r[13]
        key = f"{q}:{rel}:{ik}"
        st["items_inserted"][key] = st["items_inserted"].get(key, 0) + 1
        if verdict == "ok":
            continue
        if verdict.startswith("skip:"):
            sk = verdict.split(":")[1]
            st["skipped"][sk] = st["skipped"].get(sk, 0) + 1
            continue
        msg = verdict.split(":", 1)[1] if ":" in verdict else verdict
        where = a if q == "colon" else "expression"
        if rel in ("not-imported", "imported-by-sibling-file"):
            what = (f"`{b}::` completions in {f} offer `{name}` ({ik}) although the file does not import {b}"
                    if q == "colon" else
                    f"`{a}.` completions in {f} offer `{name}` ({ik}) of `{b}`, a type of a package the "
                    + ("file" if rel == "imported-by-sibling-file" else "package") + " does not import")
            ctx.report({"oracle": "completion-respects-imports", "query": q, "item_kind": ik, "position": where, "package": rel, "class": iso_class(msg)},
                       what + f"; inserted, the compiler's own type check says: {msg[:200]}",
                       {"id": cid, "file": f, "item": name, "kind": ik, "namespace_or_receiver": b if q == "colon" else a, "receiver_type": b if q == "dot" else None,
                        "verdict": msg, "compile_path": comp, "editor_path": edit, "src": vlib.unesc(files)})
        else:
            ctx.report({"oracle": "completion-validity", "scope": "multi-package", "query": q, "item_kind": ik, "position": where, "package": rel, "class": iso_class(msg)},
                       f"{q}-completion in {f} of a multi-package project offers `{name}` ({ik}) but inserting it makes the compiler's own type check say: {msg[:200]}",
                       {"id": cid, "file": f, "item": name, "kind": ik, "verdict": msg, "compile_path": comp, "editor_path": edit, "src": vlib.unesc(files)})
    st["seconds"] = round(time.time() - t0, 1)
    st["rule"] = ("the first 300 (thorough: 3000) worlds of the C16 generator + the C14 catalogues lookup_visibility_projects / import_rule_projects "
                  "(every project whose user package is Main, every third of the others); per project: one verdict per type-check entry point; hover at up to 14 "
                  "identifiers per file of package Main that the compile path's TAST records (nominal / compound types first) against that TAST type — judged when both "
                  "paths accept or when their verdicts differ; `P::` completions for every package directory of the project and one name nobody has, in expression, type "
                  "and trait-bound position, every offered item (3 per kind) inserted and re-checked by typecheck_with_packages (new error messages, as a set, digits "
                  "blanked); `x.` completions on up to 3 let-bound variables of nominal type, every item inserted likewise, calibrated by a non-existent member")
    return st


def run(ctx):
    ctx.extract()
    ctx.build_lean(["GomlVerif.Props.C20"])
    level = "other"
    if not ctx.build_harness():
        return ctx.finish(level, {"evaluations": 0, "distinct_nontrivial": 0}, [], "lake build")
    extra = []
    if ctx.replay:
        rp = json.load(open(ctx.replay))
        src = (rp.get("cases") or [{}])[0].get("src")
        if src is None:
            print(f"replay file {ctx.replay} carries no source text (it names a proof/tie failure)")
        else:
            f = os.path.join(ctx.run_dir, "replay.gom")
            open(f, "w", encoding="utf-8").write(src)
            extra = ["--file", f]
    ok, out = ctx.gv("c20", extra)
    path = os.path.join(ctx.run_dir, "c20.cases.tsv")
    rows = vlib.read_tsv(path) if ok and os.path.exists(path) else []
    T = [r for r in rows if r[0] == "T"]
    P = [r for r in rows if r[0] == "P"]
    OFF = [r for r in rows if r[0] == "OFF"]
    HOV = [r for r in rows if r[0] == "HOV"]
    CMP = [r for r in rows if r[0] == "CMP"]
    HANG = [r for r in rows if r[0] == "HANG"]

    # ---------------------------------------------------------------- crash / hang oracle
    P.sort(key=lambda r: len(r[8]) if len(r) > 8 else 0)
    sites = {}
    for r in P:
        _, tid, q, l, c, site, msg, loc, src = r[:9]
        s = sites.setdefault(site, {"queries": set(), "n": 0, "first": None})
        s["queries"].add(q); s["n"] += 1
        if s["first"] is None:
            s["first"] = {"id": tid, "query": q, "line": int(l), "col": int(c), "src": vlib.unesc(src),
                          "panic_message": vlib.unesc(msg), "panic_location": loc}
    for site, s in sites.items():
        pay = dict(s["first"], queries=sorted(s["queries"]), texts_hit=s["n"])
        ctx.report({"oracle": "crash", "site": site},
                   f"{'/'.join(sorted(s['queries']))} panics at {site}: {s['first']['panic_message'][:80]} "
                   f"on text {s['first']['src'][:60]!r} at ({s['first']['line']},{s['first']['col']})", pay)
    for r in HANG:
        ctx.report({"oracle": "hang", "query": r[2]}, "a query did not return within 5 s",
                   {"id": r[1], "query": r[2], "line": r[3], "col": r[4], "src": vlib.unesc(r[5])})

    # ---------------------------------------------------------------- model tie (position mapping, token selection)
    n_pos = n_raw_eq = n_none_eq = n_tok_eq = n_dot_ok = 0
    tie_samples = []
    if OFF and os.path.exists(vlib.MODEL):
        lines, meta = [], {}
        for r in OFF:
            _, tid, hx, toks, poss = (r + [""] * 5)[:5]
            ps = [p.split(",") for p in poss.split(" ") if p]
            meta[tid] = ps
            lines.append(f"{tid}\t{hx}\t{toks}\t" + " ".join(f"{p[0]},{p[1]}" for p in ps))
        model = ctx.model("c20", lines)
        bad = []
        for tid, ps in meta.items():
            m = (model.get(tid) or [""])[0].split(" ")
            if len(m) != len(ps):
                ctx.broken_ties.append(("model driver c20", f"{tid}: {len(m)} answers for {len(ps)} positions"))
                continue
            for p, a in zip(ps, m):
                l, c, raw, hovnone, tok, dsome, csome = p
                mraw, mchk, mtok, mhov, md, mk = a.split(",")
                n_pos += 1
                if raw == mraw:
                    n_raw_eq += 1
                else:
                    bad.append(f"{tid} ({l},{c}): LineIndex::offset={raw} model rawOffset={mraw}")
                if hovnone != "?":
                    if (hovnone == "1") == (mchk == "none"):
                        n_none_eq += 1
                    else:
                        bad.append(f"{tid} ({l},{c}): hover says offset-none={hovnone}, model offsetAt={mchk}")
                if tok == mtok:
                    n_tok_eq += 1
                else:
                    bad.append(f"{tid} ({l},{c}): rowan token_at_offset={tok} model={mtok}")
                if (dsome == "1" and md == "-") or (csome == "1" and mk == "-"):
                    bad.append(f"{tid} ({l},{c}): completions returned Some but the model's prepare step is none ({md},{mk})")
                else:
                    n_dot_ok += 1
                if len(tie_samples) < 3 and tok.startswith("B") and md != "-":
                    tie_samples.append({"id": tid, "position": [int(l), int(c)], "line_index_offset": raw, "model": a})
        for b in bad[:20]:
            ctx.broken_ties.append(("position-mapping correspondence", b))
    elif OFF:
        ctx.broken_ties.append(("model driver", "gomlmodel executable missing"))

    # ---------------------------------------------------------------- hover agreement
    n_hov = n_hov_agree = 0
    hov_kinds = {}
    for r in HOV:
        _, tid, off, l, c, kind, word, exp, got, cstctx, src = (r + [""] * 11)[:11]
        exp_n = re.sub(r"\s+", " ", vlib.unesc(exp)).strip()
        got_u = vlib.unesc(got)
        got_n = re.sub(r"\s+", " ", got_u[3:]).strip() if got_u.startswith("ok:") else None
        n_hov += 1
        hov_kinds[kind] = hov_kinds.get(kind, 0) + 1
        if got_n == exp_n:
            n_hov_agree += 1
            continue
        parent = cstctx.split(">")[0]
        if got_n is None:
            rel = "no-hover:" + got_u[:40]
        elif got_n.startswith("dyn ") and not exp_n.startswith("dyn "):
            rel = "type-after-dyn-coercion"
        elif parent in ("STRUCT_LITERAL_FIELD", "STRUCT_PATTERN_FIELD"):
            rel = "type-of-enclosing-struct"
        else:
            rel = "other-type"
        ctx.report({"oracle": "hover-agreement", "node": kind, "context": parent, "relation": rel},
                   f"hover on `{word}` ({kind}) reports `{got_u}` but the compiler's TAST types it `{exp_n}`",
                   {"id": tid, "line": int(l), "col": int(c), "offset": int(off), "identifier": word, "tast_type": exp_n,
                    "hover": got_u, "cst_context": cstctx, "src": vlib.unesc(src)})

    # ---------------------------------------------------------------- hover never shows an inference variable in an accepted program
    HVG = [r for r in rows if r[0] == "HVG"]
    for r in HVG:
        _, tid, l, c, got, cstctx, src = (r + [""] * 7)[:7]
        ctx.report({"oracle": "hover-ground", "context": cstctx.split(">")[0]},
                   f"hover at ({l},{c}) of a program the compiler accepts reports `{vlib.unesc(got)}`: an inference variable, "
                   f"which no type the compiler assigned in an accepted program contains",
                   {"id": tid, "line": int(l), "col": int(c), "hover": vlib.unesc(got), "cst_context": cstctx, "src": vlib.unesc(src)})

    # ---------------------------------------------------------------- completion validity
    n_cmp = n_cmp_ok = n_cmp_skip = 0
    cmp_kinds = {}
    skip_kinds = {}
    for r in CMP:
        _, tid, q, l, c, name, kind, verdict, base, text, ictx = (r + [""] * 11)[:11]
        n_cmp += 1
        cmp_kinds[f"{q}:{kind}"] = cmp_kinds.get(f"{q}:{kind}", 0) + 1
        if verdict == "ok":
            n_cmp_ok += 1
        elif verdict.startswith("skip:"):
            n_cmp_skip += 1
            skip_kinds[verdict.split(":")[1]] = skip_kinds.get(verdict.split(":")[1], 0) + 1
        else:
            v = vlib.unesc(verdict)
            cls = v.split(":", 1)[0]
            complaint = generalise(v.split(":", 1)[1].split(" | ")[0]) if ":" in v else v
            chain = ictx.split(">")
            if "IMPL" in chain and "BLOCK" not in chain:
                where = "impl-header"
            elif len(chain) > 1 and chain[1] == "EXPR_STRUCT_LITERAL":
                where = "struct-literal-head"
            elif any(k.startswith("PATTERN") for k in chain):
                where = "pattern"
            elif any(k.startswith("TYPE") for k in chain):
                where = "type"
            else:
                where = "expression"
            sig = {"oracle": "completion-validity", "query": q, "item_kind": kind, "class": cls, "position": where}
            if where == "expression":
                sig["complaint"] = complaint
            ctx.report(sig,
                       f"{q}-completion offers `{name}` ({kind}) but inserting it makes the compiler say: {v[:160]}",
                       {"id": tid, "line": int(l), "col": int(c), "item": name, "kind": kind, "verdict": v, "cst_context_of_inserted_name": ictx,
                        "same_complaint_for_a_nonexistent_name": vlib.unesc(base), "src": vlib.unesc(text)})

    # ---------------------------------------------------------------- line-ending twins (differential, model-free)
    TWN = [r for r in rows if r[0] == "TWN"]
    twin_variants = {}
    for r in TWN:
        _, tid, variant, q, l, c, l2, c2, a, b, acc, text = (r + [""] * 12)[:12]
        a, b = vlib.unesc(a), vlib.unesc(b)
        twin_variants[variant] = twin_variants.get(variant, 0) + 1
        if q == "hover":
            kind = "hover-differs"
        elif a not in ("-", "") and b in ("-", ""):
            kind = "completions-lost"
        elif a in ("-", "") and b not in ("-", ""):
            kind = "completions-appear"
        else:
            kind = "completions-differ"
        family = "line-terminator" if variant in ("crlf", "mixed-lf-crlf", "lone-cr", "no-final-newline", "blank-lines-top-crlf") else \
                 "blank-lines" if variant.startswith("blank-lines") else "multibyte" if variant.startswith("multibyte") else variant
        ctx.report({"oracle": "line-ending-twin", "family": family, "query": q, "kind": kind, "text": acc},
                   f"{q} at ({l2},{c2}) of the `{variant}` twin answers `{b[:80]}` but `{a[:80]}` at the corresponding position ({l},{c}) of the original text",
                   {"id": tid, "variant": variant, "query": q, "line": int(l2), "col": int(c2), "answer": b,
                    "original_line": int(l), "original_col": int(c), "original_answer": a, "src": vlib.unesc(text)})

    # ---------------------------------------------------------------- multi-package projects: the editor path against the compile path
    mp = multi_package(ctx) if not extra else {}

    ctx.violations.sort(key=lambda v: len(v[2].get("src", "")))

    # ---------------------------------------------------------------- coverage
    def stat(r, k):
        m = re.search(rf"\b{k}=(\S+)", r[3])
        return m.group(1) if m else "0"
    kinds, calls, wasm, positions, nonascii, hover_ok, dsome, csome, ditems, citems = {}, 0, 0, 0, 0, 0, 0, 0, 0, 0
    distinct = set()
    errs = {}
    sizes = []
    for r in T:
        kinds[r[2]] = kinds.get(r[2], 0) + 1
        calls += int(stat(r, "calls")); wasm += int(stat(r, "wasm_calls")); positions += int(stat(r, "positions"))
        nonascii += stat(r, "nonascii") == "true"
        hk = int(stat(r, "hover_ok")); hover_ok += hk
        dsome += int(stat(r, "dot_some")); csome += int(stat(r, "cc_some"))
        ditems += int(stat(r, "dot_items")); citems += int(stat(r, "cc_items"))
        sizes.append(int(stat(r, "len")))
        if hk > 0:
            distinct.add(r[1])
        for kv in (r[4] if len(r) > 4 else "").split(" "):
            if "=" in kv:
                k, v = kv.rsplit("=", 1)
                errs[k] = errs.get(k, 0) + int(v)
    sizes.sort()
    samples = []
    texts_by_id = {r[1]: r[2] for r in OFF}
    for r in T:
        if r[2] in ("prefix-token", "mutation") and len(samples) < 4 and int(stat(r, "hover_ok")) > 0 \
                and 60 < int(stat(r, "len")) < 400 and r[1] in texts_by_id and not any(s["kind"] == r[2] for s in samples[1:]):
            samples.append({"id": r[1], "kind": r[2], "text": bytes.fromhex(texts_by_id[r[1]]).decode("utf-8", "replace"), "stats": r[3]})
    nbases = next((int(r[1]) for r in rows if r[0] == "#BASES"), 0)
    mp_evals = (mp.get("hover", {}).get("asked", 0) + sum(mp.get("completion_requests", {}).values()) + sum(mp.get("items_inserted", {}).values())
                + 2 * mp.get("projects", 0)) if mp else 0
    cov = {
        "evaluations": calls + wasm + n_hov + n_cmp + mp_evals,
        "distinct_nontrivial": len(distinct),
        "rule": "one evaluation = one call of hover_type / dot_completions / colon_colon_completions (or a wasm-app wrapper) on one "
                "(text, line, col), plus one hover per TAST identifier and one re-typecheck per offered completion item; "
                "a text is non-trivial if at least one of its positions yields a hover type (the typer produced results for it); distinct by text id",
        "base_programs": nbases, "texts": len(T), "texts_by_kind": kinds, "texts_with_non_ascii": nonascii,
        "text_bytes": {"min": sizes[0] if sizes else 0, "median": sizes[len(sizes) // 2] if sizes else 0, "max": sizes[-1] if sizes else 0},
        "positions": positions, "positions_rule": "every (line, col) with col ≤ line length + 1 for every line (sampled above the cap for "
                "long texts, keeping line ends and the last two lines) + 12 positions outside the text per text incl. (n,0), (n-1,len+2), (0,2^32-1), (2^32-1,2^32-1), (1,2^32-1)",
        "query_calls": calls, "wasm_wrapper_calls": wasm,
        "hover_ok": hover_ok, "hover_err_classes": errs, "dot_some": dsome, "dot_items": ditems, "colon_some": csome, "colon_items": citems,
        "panic_sites": {k: {"texts": v["n"], "queries": sorted(v["queries"])} for k, v in sites.items()},
        "hangs": len(HANG),
        "tie": {"texts": len(OFF), "positions": n_pos, "raw_offset_equal": n_raw_eq, "offset_none_agrees_with_hover": n_none_eq,
                "token_at_offset_equal": n_tok_eq, "completion_prepare_consistent": n_dot_ok, "samples": tie_samples},
        "hover_agreement": {"checked": n_hov, "agree": n_hov_agree, "by_node": hov_kinds,
                            "pipeline_corpus_programs_hovered": len({r[1] for r in HOV if r[1].startswith("hovercorpus:")}),
                            "late_resolved_programs_hovered": len({r[1] for r in HOV if r[1].startswith("late:")}),
                            "late_resolved_fixed_by_later_context_programs_hovered": len({r[1] for r in HOV if r[1].startswith("latefix:")}),
                            "expression_hovers": sum(v for k, v in hov_kinds.items() if k.startswith(("let-value", "let-sub", "expr-node"))),
                            "expression_hover_rule": "for every `let <var> [: T] = e` of an accepted text: the tokens of e on which a hover is, by the query's own rule, a hover "
                                                     "on e itself (own tokens + delimiters of its argument / field / parameter / arm list; first, middle, last) must report the type "
                                                     "of the TAST initialiser (under a dyn coercion: of the coerced expression); the same for the sub-expressions of e reached through "
                                                     "forms whose TAST children are the CST children one to one (arguments of a call of a name / of a constructor, tuple and array items, "
                                                     "operands of binary and prefix operators; kind and arity checked at every step, depth <= 4)",
                            "unground_hovers_in_accepted_texts": len(HVG),
                            "distinct_types_hovered": len({r[6] for r in HOV})},
        "line_ending_twins": {"positions_compared": sum(int(stat(r, "twin_checked")) for r in T),
                              "texts": sum(1 for r in T if int(stat(r, "twin_checked")) > 0),
                              "differences": len(TWN), "differences_by_variant": twin_variants,
                              "variants": "crlf, blank-lines-top (all full/mutation/trigger-prefix texts); mixed-lf-crlf, blank-lines-top-crlf, blank-lines-middle, lone-cr, no-final-newline, tab-indent, multibyte-line-above, multibyte-same-line (whole programs)",
                              "crlf_or_mixed_texts_through_all_oracles": sum(1 for r in T if r[1].endswith(":crlf") or r[1].endswith(":mixed"))},
        "completion_validity": {"items_checked": n_cmp, "ok": n_cmp_ok, "skipped": skip_kinds, "by_kind": cmp_kinds},
        "multi_package_projects": mp,
        "samples": samples,
        "impl_oracle_failures": len(ctx.violations), "model_diffs": len([b for b in ctx.broken_ties if b[0] == "position-mapping correspondence"]),
        "explanation": "partial proof + fault enumeration: the position logic (line/column -> byte offset, rowan token selection, placeholder "
                       "insertion) is proved total and in range in Lean for a model whose switches are regenerated from query.rs and which is diffed against "
                       "line-index/rowan/the queries on every tie position; that the Rust code never panics or hangs, that hover equals the TAST type and that "
                       "offered completions exist is searched over prefixes/mutations of programs x all cursor positions, not proved",
        "what_is_proved": "offset_total, offset_complete, token_at_in_range, hover_no_bad_offset, dot_prepare_safe, colon_prepare_safe over the model of "
                          "LineIndex + the query.rs glue (switches regenerated from the source) + rowan token selection + placeholder insertion",
        "what_is_searched": "panics and hangs of the three queries and their wasm-app wrappers (lowering of incomplete syntax, typer on erroneous programs), "
                            "hover text vs TAST type at identifiers of accepted programs, existence of every offered completion",
    }
    ctx.assumptions += [
        "crash-freedom of the Rust code behind the offsets (ast::lower on trees with parse errors, hir, typer) is searched over the listed texts and positions, not proved",
        "the token sequence of the syntax tree tiles the text (C12) — hypothesis of hover_no_bad_offset",
        "the harness is built with the release profile (no overflow checks), as the wasm playground is; in a debug build `start + col` of the unfixed code panics instead of wrapping",
        "hover agreement is checked at identifiers that the TAST records with a source pointer (variables, pattern binders, closure parameters) and at the "
        "initialiser expression of every `let` with a variable binder (any expression kind the query maps: calls, literals, struct / tuple / array literals, closures, "
        "match, while, operators) and its argument / item / operand sub-expressions on texts that compile; other expressions (statement expressions, block tails, "
        "match arms, closure bodies, receivers) are only covered by `hover-ground`: no inference variable "
        "in any hover answer at any swept position of an accepted text",
        "a completion is valid if inserting it does not produce a diagnostic that a non-existent name inserted at the same place also produces and that was not there before",
        "multi-package projects: validity of an offered item is judged by typecheck_with_packages (the type check behind `compile`), not by the editor's own type check; "
        "a `P::` item is valid if its insertion adds no error message (set of messages, digits blanked, open type variables of a generic function named as a value ignored); "
        "hover on a program that both type checks reject alike is recorded, not judged",
    ]
    tb = ["Lean 4 kernel", "axioms: " + ",".join(ctx.proof["axioms"] or ["none"]),
          "tools/extract.py extract_query_glue (regex over query.rs)", "harness/src/c20.rs, harness/src/crash.rs", "harness/src/c16e.rs (multi-package probes; world generator of harness/src/c16.rs, catalogues of harness/src/c14.rs)", "tools/props/c20.py",
          "line-index 0.1.2 and rowan 0.16.1 behave as modelled (diffed on every tie position)"]
    return ctx.finish(level, cov, tb, "lake build GomlVerif.Props.C20 && lake env lean Axioms.lean (#print axioms); gv c20 | gomlmodel c20")
