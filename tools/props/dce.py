"""DCE — the Go-level dead-code elimination pass (go/dce.rs), shared by C02 and C09.

L1 tie: the Lean model `Dce.eliminateDeadVars` against the REAL `eliminate_dead_vars`, node for
node, on re-fed, mutated and synthetic Go ASTs.  Property oracles on the implementation's own
output (no model involved): Go's unused / undeclared / statement-context / import rules
(`Model/Dce.lean` specification side and `Go.check`), no call of a pruned function, and
`Go.Sem` outcome of the output equal to that of the input.

`run(ctx)` is the `./check dce` entry; `evaluate(ctx)` is what the C02 / C09 checks call: it
returns (coverage dict, list of (signature, what, payload)) without touching ctx.violations;
`split_for_properties(found)` says which of the two properties each failure belongs to.  A check
that uses it also passes `PROP_MODULE` to `ctx.build_lean` so that the theorems are audited.
"""
import os, re, subprocess, concurrent.futures
import vlib

PROP_MODULE = "GomlVerif.Props.Dce"
SCOPE_CODES = ("unused-variable", "unused-import", "undeclared", "redeclared", "expression-statement-not-a-call")


def esc(s):
    return s.replace("\\", "\\\\").replace("\n", "\\n").replace("\t", "\\t").replace("\r", "\\r")


def _model_chunk(lines):
    p = vlib.srun(["bash", "-c", f"ulimit -s unlimited; exec {vlib.MODEL} dce"], input="\n".join(lines) + "\n",
                       stdout=subprocess.PIPE, stderr=subprocess.PIPE, text=True, timeout=3000)
    return p.returncode, p.stdout, p.stderr


def run_model(ctx, lines, jobs=8):
    chunks = [lines[i::jobs] for i in range(jobs)]
    res = {}
    with concurrent.futures.ThreadPoolExecutor(max_workers=jobs) as ex:
        for rc, out, err in ex.map(_model_chunk, [c for c in chunks if c]):
            if rc != 0:
                ctx.broken_ties.append(("model driver dce", err[-1000:]))
            for l in out.split("\n"):
                f = l.split("\t")
                if len(f) >= 2:
                    res[f[0]] = f[1:]
    return res


def parse_report(s):
    d = {}
    for part in s.split(";"):
        if "=" in part:
            k, v = part.split("=", 1)
            d[k] = [x for x in v.split(",") if x]
    return d


def parse_sem(s):
    f = s.split("|")
    return (f[0], f[1] if len(f) > 1 else "", f[2] if len(f) > 2 else "")


def gc_codes(s):
    out = {}
    for e in s.split(","):
        if "|" in e:
            c = e.split("|")[0]
            out.setdefault(c, []).append(e)
    return out


def sem_kind(a, b):
    sa, sb = a[0].split(":")[0], b[0].split(":")[0]
    if sa == "panic" and sb != "panic":
        return "dropped-failing-operation"
    if sa != sb:
        return f"ends-differently:{sa}->{sb}"
    if a[0] != b[0]:
        return "panics-differently"
    return "stdout-differs" if a[1] != b[1] else "extern-events-differ"


def evaluate(ctx):
    extra = ()
    if ctx.replay:
        # re-run the inputs recorded in a replay file through the real DCE and all oracles
        import json
        rp = json.load(open(ctx.replay))
        path = os.path.join(ctx.run_dir, "dce.replay.tsv")
        with open(path, "w") as f:
            recompile = rp.get("signature", {}).get("oracle") == "go-rules-compiled-output"
            for c in rp.get("cases", []):
                if recompile and c.get("src"):
                    # the finding is about what the compiler emits: compile the source again
                    f.write(f"{c['id'].split('|')[0]}\tSRC\t{esc(c['src'])}\n")
                elif c.get("input"):
                    f.write(f"{c['id']}\treplay\t{c['input']}\n")
        extra = ("replay", path)
    ok, _ = ctx.gv("dce", extra)
    rows = vlib.read_tsv(os.path.join(ctx.run_dir, "dce.cases.tsv")) if ok else []
    srcs, cases, found = {}, {}, []
    streams, tags = {}, {}
    stages = {}
    for r in rows:
        if r[0].startswith("#"):
            continue
        if r[1] == "STAGE":
            stages.setdefault(r[0], {})[r[2]] = r[3]
            continue
        if r[1] == "SRC":
            srcs[r[0]] = vlib.unesc(r[2])
        elif r[1] == "CASE":
            cases[r[0]] = {"stream": r[2], "tags": r[3], "in": r[4], "out": r[5]}
            streams[r[2]] = streams.get(r[2], 0) + 1
            for t in r[3].split():
                if "=" in t:
                    k, v = t.split("=")
                    tags[k] = tags.get(k, 0) + int(v)
        elif r[1] == "FAIL":
            why = vlib.unesc(r[5])
            if why.startswith("panic"):
                found.append(({"oracle": "dce-run", "kind": "panic"}, "eliminate_dead_vars panics on a Go AST",
                              {"id": r[0], "input": r[4][:4000], "panic": why}))
            else:
                ctx.broken_ties.append(("harness goast decoder", f"{r[0]}: {why}"))
    # ---- whole pipeline on the witness programs: Sem of the ANF the backend starts from against
    # Go.Sem of the Go it emits (DCE included) — catches an effect dropped inside go_file
    from props import c01
    sem_lines = [f"{pid}|{st}\t{sx}" for pid, d in stages.items() for st, sx in d.items()]
    sem = c01.run_sem(ctx, sem_lines) if sem_lines else {}
    n_pipe = 0
    for pid, d in stages.items():
        a, g = sem.get(f"{pid}|anf"), sem.get(f"{pid}|go")
        if a is None or g is None or a[0].endswith("error") or g[0].endswith("error"):
            ctx.broken_ties.append(("sem driver", f"{pid}: {a} {g}"))
            continue
        if a[0] == "fuel" or g[0] == "fuel" or a[0].startswith("stuck"):
            continue
        n_pipe += 1
        if (a[0], a[1]) != (g[0], g[1]):
            found.append(({"oracle": "pipeline-anf-vs-go", "kind": sem_kind(a, g)},
                          "the Go the backend emits (after DCE) does not behave like the ANF it was built from",
                          {"id": pid, "src": srcs.get(pid), "anf": {"status": a[0], "stdout": vlib.unesc(a[1])[:400]},
                           "go": {"status": g[0], "stdout": vlib.unesc(g[1])[:400]}}))
    lines = []
    for cid, c in cases.items():
        fuel = 40000 if c["stream"] == "synth" else 3000000
        lines.append(f"{cid}\t{fuel}\t{c['in']}\t{c['out']}")
    res = run_model(ctx, lines) if lines else {}

    n = {"cases": 0, "tie_eq": 0, "in_contract": 0, "sem_compared": 0, "sem_equal": 0, "scope_checked": 0,
         "refeed_unchanged": 0, "refeed": 0, "fuel_skipped": 0, "stuck_input_skipped": 0}
    contract = {}
    ooc = {}            # out-of-contract divergences, by reason (informational)
    ooc_samples = []
    diffs, samples, distinct = [], [], set()
    status_in = {}
    for cid, c in cases.items():
        r = res.get(cid)
        if r is None or len(r) < 7:
            ctx.broken_ties.append(("model driver dce", f"{cid}: {r}"))
            continue
        n["cases"] += 1
        tie, rin, rout, gin, gout, sin, sout = r[0], parse_report(r[1]), parse_report(r[2]), gc_codes(r[3]), gc_codes(r[4]), parse_sem(r[5]), parse_sem(r[6])
        base = cid.split("|")[0]
        payload = {"id": cid, "stream": c["stream"], "tags": c["tags"], "src": srcs.get(base), "input": c["in"], "output": c["out"][:6000]}
        distinct.add(hash(c["in"]))
        if tie == "EQ":
            n["tie_eq"] += 1
        else:
            diffs.append((cid, tie))
        if c["stream"] == "refeed":
            n["refeed"] += 1
            n["refeed_unchanged"] += c["in"] == c["out"]
        status_in[sin[0].split(":")[0]] = status_in.get(sin[0].split(":")[0], 0) + 1

        # ---- the compiler's own output (the re-fed input is what go_file emitted, DCE included)
        if c["stream"] == "refeed":
            for kind, errs in (("unused-variable", rin.get("unused", [])),
                               ("value-in-statement-context", rin.get("stmtctx", [])),
                               ("unused-import", rin.get("imports", []))):
                if errs:
                    found.append(({"oracle": "go-rules-compiled-output", "kind": kind},
                                  f"the Go the compiler emits breaks a rule DCE exists for: {kind} ({errs[0]})",
                                  dict(payload, errors=errs[:5])))
        # ---- Go's rules for locals / imports / statement context on the REAL output
        in_scope_clean = not rin.get("scope") and not gin.get("undeclared") and not gin.get("redeclared")
        if in_scope_clean:
            n["scope_checked"] += 1
            checks = [
                ("unused-variable", rout.get("unused", []) + gout.get("unused-variable", [])),
                ("undeclared", rout.get("scope", []) + gout.get("undeclared", []) + gout.get("redeclared", [])),
                ("unused-import", rout.get("imports", []) + gout.get("unused-import", [])),
                ("call-of-pruned-function", rout.get("dangling", [])),
            ]
            if not rin.get("stmtctx") and not gin.get("expression-statement-not-a-call"):
                checks.append(("value-in-statement-context", rout.get("stmtctx", []) + gout.get("expression-statement-not-a-call", [])))
            if rin.get("hasMain") == ["true"] and rout.get("hasMain") != ["true"]:
                checks.append(("main-removed", ["main"]))
            for kind, errs in checks:
                if errs:
                    found.append(({"oracle": "go-rules", "kind": kind},
                                  f"the output of eliminate_dead_vars breaks a Go rule DCE exists for: {kind} ({errs[0]})",
                                  dict(payload, errors=errs[:5])))
        # ---- contract predicates of the theorems, per stream (evaluated on the real input)
        cs = contract.setdefault(c["stream"], {"cases": 0, "scope_clean": 0, "shapeOK": 0, "semOK(inertSyn true)": 0,
                                                "semOK(inertSyn false)": 0, "all(static)": 0, "all(proved criterion)": 0})
        sc_ok = not rin.get("scope")
        cs["cases"] += 1
        cs["scope_clean"] += sc_ok
        cs["shapeOK"] += not rin.get("shape")
        cs["semOK(inertSyn true)"] += not rin.get("semStatic")
        cs["semOK(inertSyn false)"] += not rin.get("semStrict")
        cs["all(static)"] += sc_ok and not rin.get("shape") and not rin.get("semStatic")
        cs["all(proved criterion)"] += sc_ok and not rin.get("shape") and not rin.get("semStrict")
        # ---- behaviour: Go.Sem(output) = Go.Sem(input)
        reasons = []
        if rin.get("scope") or gin.get("undeclared") or gin.get("redeclared"):
            reasons.append("shadowing-or-undeclared")
        if rin.get("shape"):
            reasons.append("shape(block-expr/self-assign/blank-read)")
        if rin.get("semStatic"):
            reasons.append("loop-carried-or-unsafe-dead-init")
        if sin[0] == "fuel" or sout[0] == "fuel":
            n["fuel_skipped"] += 1
        elif sin[0].startswith("stuck"):
            n["stuck_input_skipped"] += 1
        else:
            same = sin == sout
            if not reasons:
                n["in_contract"] += 1
                n["sem_compared"] += 1
                n["sem_equal"] += same
                if not same:
                    found.append(({"oracle": "gosem", "kind": sem_kind(sin, sout)},
                                  "Go.Sem of the output of eliminate_dead_vars differs from Go.Sem of its input",
                                  dict(payload, before={"status": sin[0], "stdout": vlib.unesc(sin[1])[:400]},
                                       after={"status": sout[0], "stdout": vlib.unesc(sout[1])[:400]})))
            elif not same:
                key = "+".join(reasons)
                ooc[key] = ooc.get(key, 0) + 1
                if len(ooc_samples) < 3:
                    ooc_samples.append({"id": cid, "why_outside": key, "before": sin[0] + "|" + sin[1][:120], "after": sout[0] + "|" + sout[1][:120]})
        if len(samples) < 3 and c["stream"] != "refeed" and c["in"] != c["out"]:
            samples.append({"id": cid, "stream": c["stream"], "tags": c["tags"], "input_chars": len(c["in"]), "output_chars": len(c["out"]),
                            "sem_before": sin[0], "sem_after": sout[0], "tie": tie})
    for cid, tie in diffs[:10]:
        ctx.broken_ties.append(("model≠implementation (Dce.eliminateDeadVars vs dce.rs)", f"{cid}: {tie}"))
    cov = {
        "evaluations": n["cases"], "distinct_nontrivial": len(distinct),
        "rule": "one case = one Go AST file run through the real eliminate_dead_vars; distinct by input text; non-trivial = every case (each has ≥1 function body)",
        "streams": streams, "mutation_and_generator_tags": tags,
        "model_equals_implementation": n["tie_eq"], "model_diffs": len(diffs),
        "scope_rules_checked_on_output": n["scope_checked"],
        "inputs_inside_preservation_contract": n["in_contract"],
        "contract_predicates_by_stream": contract,
        "gosem_compared": n["sem_compared"], "gosem_equal": n["sem_equal"],
        "gosem_input_status": status_in, "fuel_skipped": n["fuel_skipped"], "stuck_input_skipped": n["stuck_input_skipped"],
        "pipeline_witnesses_compared(anf vs go)": n_pipe,
        "refeed_cases": n["refeed"], "refeed_unchanged(idempotent)": n["refeed_unchanged"],
        "outside_contract_divergences(informational)": ooc, "outside_contract_samples": ooc_samples,
        "samples": samples or [{"id": "none"}],
        "impl_oracle_failures": len(found),
    }
    return cov, found


def split_for_properties(found):
    """which property a failure of the DCE oracles belongs to: C02 owns Go's validity rules, C09 the
    behaviour (dropped / duplicated / reordered effects); a panic of the pass itself goes to both"""
    c02, c09 = [], []
    for sig, what, payload in found:
        o = sig.get("oracle", "")
        if o.startswith("go-rules"):
            c02.append((dict(sig, source="dce"), what, payload))
        elif o in ("gosem", "pipeline-anf-vs-go"):
            c09.append((dict(sig, source="dce"), what, payload))
        else:
            c02.append((dict(sig, source="dce"), what, payload))
            c09.append((dict(sig, source="dce"), what, payload))
    return c02, c09


def run(ctx):
    ctx.extract()
    mods = [m for m in [PROP_MODULE] if os.path.exists(os.path.join(vlib.LEAN, m.replace(".", "/") + ".lean"))]
    ctx.build_lean(mods)
    if not ctx.build_harness():
        return ctx.finish("proof", {"programs": 0, "disagreements_checked": 0, "samples": []}, [], "lake build")
    cov, found = evaluate(ctx)
    for sig, what, payload in found:
        ctx.report(sig, what, payload)
    ctx.violations.sort(key=lambda v: len(v[2].get("input") or "x" * 10**7))
    cov["disagreements_checked"] = len(found)
    ctx.assumptions += [
        "Go.Sem (Model/GoSem.lean) and Go.check (Model/GoCheck.lean) are our reading of Go for the emitted subset",
        "pre-DCE ASTs of real compiles are not observable (go_file runs DCE internally): inputs are re-fed post-DCE ASTs, mutations of them and synthetic files; the contract predicates (shapeOK, scopeErrs = [], semOK) are validated on those, not on compile_fn's raw output",
        "the preservation theorem is a forward simulation: every definite run (ok / panic) of the input is reproduced by the output with some fuel; divergence of the input is not covered",
        "`e.f` in a deleted initialiser is taken not to dereference nil (static typing of the backend); the proved syntactic criterion `inertSyn false` excludes field access, the validated one `inertSyn true` admits it",
    ]
    tb = ["Lean 4 kernel", "Go.Sem / Go.check definitions", "harness/src/dce.rs (S-expr → goast decoder, validated by round trip on every case)",
          "harness/src/godump.rs", "Driver/Dce.lean encoder", "tools/props/dce.py", "tools/extract.py (DceTables)"]
    return ctx.finish("proof", cov, tb, f"lake build {PROP_MODULE} + #print axioms; gv dce | gomlmodel dce")
