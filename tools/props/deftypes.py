"""The definition-only type catalogue (harness/src/deftypes.rs, `gv c02deftypes`): every kind of type whose Go
spelling names a declaration (tuple, array, Ref, Vec, dyn Trait, function type, generic instance, extern type,
and each nested in each) x every place a type can be written without a function mentioning it (payload of an
unbuilt variant, field of an unbuilt struct, generic instance argument, trait method signature, extern signature,
second file, other package).  Each program is compiled by the real pipeline; the REAL Go AST is judged by Go.Check
(every named type declared exactly once), the printed text is parsed back, and an accepted program must not make
the back end panic.  No model of the compiler is involved."""
import collections, os, re
import vlib
from props import c01

CONTROL_PLACE = "mentioned-by-a-function"


def missing_class(name):
    """which helper declaration a Go type name stands for (the back end's own naming scheme)"""
    n = name
    if "dyn__" in n:
        return "dyn-struct"
    if re.match(r"^(_goml_)?Tuple\d+_", n) or n.startswith("Tuple"):
        return "tuple-struct"
    if re.match(r"^ref_", n):
        return "ref-struct"
    return "other"


def named_in(site):
    """where the Go names the type: the vtable struct of a trait object (its fields are the trait's method
    signatures) or any other declaration"""
    return "vtable-struct" if ("dyn__" in site and site.endswith("_vtable")) else "declaration"


PANIC_CLASSES = [("generic types not supported in Go backend", "generic-instance-not-monomorphised")]


def panic_class(msg):
    for needle, cls in PANIC_CLASSES:
        if needle in msg:
            return cls
    return re.sub(r"[^a-z]+", "-", msg.lower())[:60].strip("-")


def evaluate(ctx):
    """-> (coverage, [(signature, what, payload)])"""
    found = []
    progs, feats = c01.collect(ctx, sub="c02deftypes")
    path = os.path.join(ctx.run_dir, "c02deftypes.cases.tsv")
    rows = vlib.read_tsv(path) if os.path.exists(path) else []
    meta = {r[0]: r[2:6] for r in rows if len(r) >= 6 and r[1] == "DEFTYPE"}
    if not meta:
        ctx.broken_ties.append(("definition-only type catalogue", "gv c02deftypes produced no program"))
        return {"programs": 0}, found
    lines = [f"{pid}\t{d['stages']['go']}" for pid, d in progs.items() if "go" in d["stages"]]
    res = c01.gocheck(ctx, lines) if lines else {}
    n = collections.Counter()
    by_kind, by_place, by_class = collections.Counter(), collections.Counter(), collections.Counter()
    codes = collections.Counter()
    failing_cells = collections.defaultdict(list)
    samples = []
    for pid, d in sorted(progs.items()):
        kind, cls, place, ty = meta.get(pid, ("?", "?", "?", "?"))
        control = cls == "control" and ":" not in kind
        n["programs"] += 1
        payload = {"id": pid, "kind": kind, "declaration_class": cls, "place": place, "type": ty, "src": d.get("src")}
        if "panic" in d:
            n["panic"] += 1
            sig = {"oracle": "definition-only-type", "failure": "compiler-panic", "missing": panic_class(d["panic"]),
                   "named_in": "vtable-struct" if place.startswith("trait-method") else "declaration"}
            failing_cells[vlib.json.dumps(sig, sort_keys=True)].append(f"{kind}@{place}")
            found.append((sig, f"the type `{ty}` written at place {place}: the front end accepts the program and the compiler panics: {d['panic'][:140]}",
                          dict(payload, failure="compiler-panic", panic=d["panic"][:400])))
            continue
        if "reject" in d:
            n["rejected"] += 1
            if control:
                ctx.broken_ties.append(("definition-only template", f"{pid}: the control kind is rejected at this place: {d['reject'][1][:200]}"))
            continue
        n["accepted"] += 1
        by_kind[kind.split(":")[0] if ":" in kind else kind] += 1
        by_place[place] += 1
        by_class[cls] += 1
        r = res.get(pid)
        if r is None or r[0] in ("decode-error", "parse-error"):
            ctx.broken_ties.append(("gocheck driver", f"{pid}: {r}"))
            continue
        pp = d.get("pprint")
        if pp is not None and pp[0] != "ok":
            n["printed_text_does_not_parse_back"] += 1
            sig = {"oracle": "definition-only-type", "failure": "go-printer:" + pp[0], "missing": cls, "named_in": "text"}
            failing_cells[vlib.json.dumps(sig, sort_keys=True)].append(f"{kind}@{place}")
            found.append((sig, f"the type `{ty}` written at place {place}: the printed Go text does not parse back to the Go AST it was printed from: {pp[1][:120]}",
                          dict(payload, failure="go-printer:" + pp[0], detail=pp[1][:600])))
        if r[0] == "ok":
            n["accepted_by_gocheck"] += 1
            if len(samples) < 3 and place in ("variant-payload", "other-package-variant", "trait-method-parameter") and kind in ("tuple", "ref-of:tuple", "array"):
                samples.append({"id": pid, "type": ty, "src": (d.get("src") or "")[:300], "gocheck": "ok"})
            continue
        n["gocheck_rejects"] += 1
        errs, seen = [], set()
        for e in r[1].split(" ;; "):
            parts = e.split("|", 2)
            errs.append({"code": parts[0], "site": parts[1] if len(parts) > 1 else "", "detail": (parts[2] if len(parts) > 2 else "")[:200]})
        for e in errs:
            codes[e["code"]] += 1
            if e["code"] in ("undeclared-type", "literal-of-undeclared-type"):
                sig = {"oracle": "definition-only-type", "failure": e["code"], "missing": missing_class(e["detail"]), "named_in": named_in(e["site"])}
            else:
                sig = {"oracle": "definition-only-type", "failure": e["code"], "missing": cls, "named_in": named_in(e["site"])}
            key = vlib.json.dumps(sig, sort_keys=True)
            if key in seen:
                continue
            seen.add(key)
            failing_cells[key].append(f"{kind}@{place}")
            found.append((sig, f"the type `{ty}` ({kind}) written only at place {place}: the emitted Go is rejected by Go's rules: "
                               f"{e['code']} `{e['detail'][:80]}` named by the declaration of `{e['site']}`",
                          dict(payload, failure="gocheck:" + e["code"], errors=errs[:8])))
    cov = {"programs": n["programs"], "accepted": n["accepted"], "accepted_and_gocheck_ok": n["accepted_by_gocheck"],
           "rejected_by_front_end": n["rejected"], "compiler_panics": n["panic"], "rejected_by_gocheck": n["gocheck_rejects"],
           "printed_text_does_not_parse_back": n["printed_text_does_not_parse_back"],
           "error_codes": dict(codes), "accepted_by_base_kind_or_nesting": dict(by_kind), "accepted_by_place": dict(by_place),
           "accepted_by_declaration_class": dict(by_class),
           "failing_cells_by_signature": {k: {"count": len(v), "first": v[:6]} for k, v in failing_cells.items()},
           "generator": feats, "samples": samples}
    return cov, found
