"""gocomp — the Go back end go/compile.rs (ANF -> Go AST), shared by C01, C02 and C09.

L1 tie: the Lean model `GoCompile.goFilePre` composed with `Dce.eliminateDeadVars` against the REAL
`go::compile::go_file`, item by item, on the real annotated ANF + the parts of the real
`GlobalGoEnv` the back end reads, for every accepted corpus / generated program — once with a fresh
`Gensym` (counter 0) and once against the pipeline's own output (counter offset recovered from
`main0`).  Per ANF function: EQ / DIFF / UNSUPPORTED / PRUNED, and whether it lies inside
`InGoFragment` (the hypothesis of `compile_preserves`), with the reason when it does not.

Property-level oracles on the implementation's own output (no model): `Sem` of the real ANF against
`Go.Sem` of the real Go AST it was compiled to (programs whose Go passes `Go.check`), and
"`go_file` does not panic on an ANF file the pipeline produced".

`run(ctx)` is the `./check gocomp` entry; `evaluate(ctx)` is what the C01 / C02 / C09 checks call: it
returns (coverage dict, list of (signature, what, payload)) without touching ctx.violations;
`split_for_properties(found)` says which property each failure belongs to.  A check that uses it also
passes `PROP_MODULE` to `ctx.build_lean` so that the theorems are audited.
"""
import os, subprocess, concurrent.futures
import vlib

PROP_MODULE = "GomlVerif.Props.GoCompile"
SEM_FUEL = "400000"


def _model_chunk(lines):
    p = vlib.srun(["bash", "-c", f"ulimit -s unlimited; exec {vlib.MODEL} gocomp"], input="\n".join(lines) + "\n",
                       stdout=subprocess.PIPE, stderr=subprocess.PIPE, text=True, timeout=3000)
    return p.returncode, p.stdout, p.stderr


def run_model(ctx, lines, jobs=8):
    chunks = [lines[i::jobs] for i in range(jobs)]
    res = {}
    with concurrent.futures.ThreadPoolExecutor(max_workers=jobs) as ex:
        for rc, out, err in ex.map(_model_chunk, [c for c in chunks if c]):
            if rc != 0:
                ctx.broken_ties.append(("model driver gocomp", err[-1000:]))
            for l in out.split("\n"):
                f = l.split("\t")
                if len(f) >= 2:
                    res[f[0]] = f[1:]
    return res


def _kv(s):
    out = []
    for part in s.split(","):
        if "=" in part:
            k, v = part.rsplit("=", 1)
            out.append((k, v))
    return out


def sem_kind(a, g):
    sa, sg = a[0].split(":")[0], g[0].split(":")[0]
    if sa == "panic" and sg != "panic":
        return "dropped-failing-operation"
    if sa != "panic" and sg == "panic":
        return "added-failing-operation"
    if sa != sg:
        return f"ends-differently:{sa}->{sg}"
    if a[0] != g[0]:
        return "panics-differently"
    return "stdout-differs"


def evaluate(ctx):
    from props import c01
    extra = ()
    if ctx.replay:
        import json
        rp = json.load(open(ctx.replay))
        path = os.path.join(ctx.run_dir, "gocomp.replay.gom")
        src = next((c.get("src") for c in rp.get("cases", []) if c.get("src")), None)
        if src:
            open(path, "w").write(src)
            extra = ("--file", path)
    ok, _ = ctx.gv("gocomp", extra)
    rows = vlib.read_tsv(os.path.join(ctx.run_dir, "gocomp.cases.tsv")) if ok else []
    srcs, cases, stages, found = {}, {}, {}, []
    rejected = 0
    for r in rows:
        if r[0].startswith("#"):
            continue
        if r[1] == "SRC":
            srcs[r[0]] = vlib.unesc(r[2])
        elif r[1] == "STAGE":
            stages.setdefault(r[0], {})[r[2]] = r[3]
        elif r[1] == "CASE" and len(r) >= 7:
            cases[r[0]] = r[2:7]
        elif r[1] == "FAIL":
            found.append(({"oracle": "go_file-run", "kind": "panic"}, "go::compile::go_file panics on the ANF file the pipeline produced",
                          {"id": r[0], "src": srcs.get(r[0]), "panic": vlib.unesc(r[3]) if len(r) > 3 else ""}))
        elif r[1] in ("REJECT", "PANIC"):
            rejected += 1
    # ---- L1 tie + fragment membership (model side)
    lines = [f"{cid}\t" + "\t".join(c) for cid, c in cases.items()]
    res = run_model(ctx, lines) if lines else {}
    n = {"programs": 0, "fresh_eq": 0, "pipe_eq": 0, "pipe_skipped": 0}
    fn = {"EQ": 0, "DIFF": 0, "UNSUPPORTED": 0, "PRUNED": 0}
    frag = {"functions": 0, "inside": 0, "inside_and_EQ": 0}
    reasons = {}
    diffs, samples, distinct = [], [], set()
    streams = {}
    for cid, c in cases.items():
        r = res.get(cid)
        if r is None or len(r) < 4:
            ctx.broken_ties.append(("model driver gocomp", f"{cid}: {r}"))
            continue
        n["programs"] += 1
        streams[cid.split(":")[0]] = streams.get(cid.split(":")[0], 0) + 1
        distinct.add(hash(c[2]))
        fresh, pipe = r[0], r[1]
        n["fresh_eq"] += fresh == "EQ"
        if pipe == "SKIP":
            n["pipe_skipped"] += 1
        else:
            n["pipe_eq"] += pipe == "EQ"
        if fresh != "EQ":
            diffs.append((cid, "fresh-counter run: " + fresh))
        if pipe not in ("EQ", "SKIP"):
            diffs.append((cid, "pipeline output: " + pipe))
        verdicts = dict(_kv(r[2]))
        for name, v in verdicts.items():
            key = "UNSUPPORTED" if v.startswith("UNSUPPORTED") else v
            fn[key] = fn.get(key, 0) + 1
            if key in ("DIFF", "UNSUPPORTED") and fresh == "EQ":
                diffs.append((cid, f"function {name}: {v}"))
        for name, why in _kv(r[3]):
            frag["functions"] += 1
            if why == "in":
                frag["inside"] += 1
                frag["inside_and_EQ"] += verdicts.get(name) in ("EQ", "PRUNED")
            else:
                reasons[why] = reasons.get(why, 0) + 1
        if len(samples) < 3 and cid.startswith("gen"):
            samples.append({"id": cid, "fresh": fresh, "pipeline": pipe, "functions": r[2][:300], "fragment": r[3][:300],
                            "anf_chars": len(c[2]), "go_chars": len(c[3])})
    for cid, what in diffs[:10]:
        ctx.broken_ties.append(("model≠implementation (GoCompile.goFilePre ∘ Dce.eliminateDeadVars vs go_file)", f"{cid}: {what}"))
    # ---- behaviour oracle on the implementation's own output: Sem(ANF) vs Go.Sem(Go)
    sem_lines = [f"{pid}|{st}\t{sx}" for pid, d in stages.items() for st, sx in d.items()]
    sem = {}
    if sem_lines:
        # bounded fuel, in parallel: a back end that emits a diverging loop must not stall the check
        jobs = 8
        with concurrent.futures.ThreadPoolExecutor(max_workers=jobs) as ex:
            for part in ex.map(lambda ch: c01.run_sem(ctx, ch, env={"GV_FUEL": SEM_FUEL}) if ch else {},
                               [sem_lines[i::jobs] for i in range(jobs)]):
                sem.update(part)
    gc = c01.gocheck(ctx, [f"{pid}\t{d['go']}" for pid, d in stages.items() if "go" in d])
    b = {"compared": 0, "equal": 0, "invalid_go_skipped": 0, "fuel_skipped": 0, "extern_skipped": 0, "anf_stuck_skipped": 0}
    for pid, d in stages.items():
        a, g = sem.get(f"{pid}|anf"), sem.get(f"{pid}|go")
        if a is None or g is None or a[0].endswith("error") or g[0].endswith("error"):
            ctx.broken_ties.append(("sem driver", f"{pid}: {a} {g}"))
            continue
        if gc.get(pid, ("ok",))[0] == "err":
            b["invalid_go_skipped"] += 1
            continue
        if a[0] == "fuel" or g[0] == "fuel":
            b["fuel_skipped"] += 1
            continue
        if a[2].strip() or g[2].strip():
            b["extern_skipped"] += 1
            continue
        if a[0].startswith("stuck"):
            b["anf_stuck_skipped"] += 1
            continue
        b["compared"] += 1
        if (a[0], a[1]) == (g[0], g[1]):
            b["equal"] += 1
        else:
            found.append(({"oracle": "anf-vs-go", "kind": sem_kind(a, g)},
                          "the Go the back end emits does not behave like the ANF it was compiled from",
                          {"id": pid, "src": srcs.get(pid), "anf": {"status": a[0], "stdout": vlib.unesc(a[1])[:400]},
                           "go": {"status": g[0], "stdout": vlib.unesc(g[1])[:400]}}))
    cov = {
        "evaluations": n["programs"], "distinct_nontrivial": len(distinct),
        "rule": "one case = one accepted program: its real annotated ANF file + GlobalGoEnv through the real go_file (fresh Gensym) and the pipeline's own Go; distinct by ANF text; non-trivial = every case (≥ 1 function)",
        "streams": streams, "programs_rejected_by_the_front_end": rejected,
        "model_equals_go_file(fresh counter)": n["fresh_eq"], "model_equals_pipeline_output": n["pipe_eq"],
        "pipeline_offset_not_recoverable": n["pipe_skipped"], "model_diffs": len(diffs),
        "functions": fn,
        "InGoFragment": dict(frag, outside=frag["functions"] - frag["inside"],
                             reasons_outside=dict(sorted(reasons.items(), key=lambda kv: -kv[1]))),
        "behaviour_oracle(anf vs go)": b,
        "samples": samples or [{"id": "none"}],
        "impl_oracle_failures": len(found),
    }
    return cov, found


def replay_is_gocomp(path):
    try:
        import json
        return json.load(open(path)).get("signature", {}).get("source") == "gocomp"
    except Exception:
        return False


def add_to(ctx, prop, cov):
    """what C01 / C02 / C09 call: run the gocomp machinery inside their own check, report the failures
    that belong to `prop`, put the coverage under cov["gocomp"]"""
    if ctx.replay and not replay_is_gocomp(ctx.replay):
        return
    gcov, found = evaluate(ctx)
    for sig, what, payload in split_for_properties(found).get(prop, []):
        ctx.report(sig, what, payload)
    cov["gocomp"] = gcov
    ctx.assumptions.append("go/compile.rs has its own model (Model/GoCompile.lean, Props/GoCompile.lean: compile_preserves, compile_wellformed, compile_order on InGoFragment) tied exactly by `gv gocomp`; outside the fragment the back end stays decided per program by this check's oracles")


def split_for_properties(found):
    """which property a failure of the gocomp oracles belongs to: a behavioural divergence between the
    ANF and the Go is C01's (and C09's: an effect or failure point moved); a back end that panics
    yields no Go at all (C02)"""
    out = {"C01": [], "C02": [], "C09": []}
    for sig, what, payload in found:
        s = dict(sig, source="gocomp")
        if sig.get("oracle") == "anf-vs-go":
            out["C01"].append((s, what, payload))
            out["C09"].append((s, what, payload))
        else:
            out["C02"].append((s, what, payload))
    return out


ASSUMPTIONS = [
    "go_file runs dead-code elimination internally and exposes no pre-DCE AST: the tie compares Dce.eliminateDeadVars(GoCompile.goFilePre …) with the real output, so it speaks about the composition; Model/Dce.lean is tied on its own by `gv dce`",
    "compile_preserves is a forward simulation for definite runs (ok / panic) of functions inside InGoFragment; divergence, and everything outside the fragment, stays decided by the per-program oracles (Sem vs Go.Sem, Go.check)",
    "Go.Sem (Model/GoSem.lean) and Go.check (Model/GoCheck.lean) are our reading of Go for the emitted subset; Sem (Model/Sem.lean) is the meaning of ANF",
]
TRUSTED = ["Lean 4 kernel", "Sem / Go.Sem / Go.check definitions", "harness/src/gocomp.rs (annotated ANF + GlobalGoEnv dump)",
           "harness/src/godump.rs", "Driver/GoComp.lean (decoders), Driver/Dce.lean (encoder)", "tools/props/gocomp.py"]


def run(ctx):
    ctx.extract()
    mods = [m for m in [PROP_MODULE] if os.path.exists(os.path.join(vlib.LEAN, m.replace(".", "/") + ".lean"))]
    ctx.build_lean(mods)
    if not ctx.build_harness():
        return ctx.finish("proof", {"programs": 0, "disagreements_checked": 0, "samples": []}, [], "lake build")
    cov, found = evaluate(ctx)
    for sig, what, payload in found:
        ctx.report(sig, what, payload)
    ctx.violations.sort(key=lambda v: len(v[2].get("src") or "x" * 10**7))
    cov["disagreements_checked"] = len(found)
    ctx.assumptions += ASSUMPTIONS
    return ctx.finish("proof", cov, TRUSTED, f"lake build {PROP_MODULE} + #print axioms; gv gocomp | gomlmodel gocomp")
