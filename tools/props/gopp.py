"""gopp — the Go printer (pprint/go_pprint.rs) against its Lean model (Model/GoPrint.lean, Props/GoPrint.lean).

Tie (exact, byte for byte): `gv gopp` prints the REAL `to_pretty(goenv, w)` text of every top-level item of the Go AST
of every corpus / generated program and of synthetic Go ASTs at w = 40, 80, 120 next to the item's dump;
`gomlmodel gopp` prints `GoPrint.render w (itemDoc item)` for the same dump; the six texts must be equal.
Oracles on the implementation's own output:
  * go-printer-model / needs-parentheses, tokens-glued: an item the COMPILER produced must satisfy `itemParenFree`
    and `glueFree` (the hypotheses of `print_expr_roundtrip` / of the adjacency reading) — otherwise the printed
    text reads as another tree (the printer writes no parentheses);
  * go-printer / width-N: the whole file's text at widths 40 and 80 parsed back by harness/src/goparse.rs (model-free)
    must be the AST it was printed from (width 120 is C01/C02's PPRINT row);
  * file text = item texts joined by a blank line + final newline.
Cross-validation of the predicate: a synthetic `strict` item that the model calls paren-free and glue-free must be
read back unchanged by goparse.rs."""
import os, subprocess, collections
import vlib

PROP_MODULE = "GomlVerif.Props.GoPrint"
LEX_MODULE = "GomlVerif.Props.GoLex"
PANIC = "\x00PANIC"


def run_model(ctx, lines):
    p = subprocess.run([vlib.MODEL, "gopp"], input=("\n".join(lines) + "\n").encode("utf-8"), stdout=subprocess.PIPE,
                       stderr=subprocess.PIPE, timeout=3000)
    if p.returncode != 0:
        ctx.broken_ties.append(("model driver gopp", p.stderr.decode("utf-8", "replace")[-2000:]))
    res = {}
    for l in p.stdout.decode("utf-8", "replace").split("\n"):
        if l:
            f = l.split("\t")
            res[f[0]] = f[1:]
    return res


def golex(ctx, cases, res):
    """the LEXICAL tie: the REAL text of every item (width 120) is lexed by Model/GoLex.lean (`gomlmodel golex`), which
    must return the tokens the model's `Doc.pieces` predicts (with Go's automatic semicolons), and by the tokenizer of
    harness/src/goparse.rs (`gv golex`), an independent second lexer that must return the same kinds and texts"""
    lines = [f"{k}\t{r[2]}\t{r[5]}" for k, r in cases.items() if PANIC not in r[5]]
    if not lines:
        return {}
    data = ("\n".join(lines) + "\n").encode("utf-8")
    p = subprocess.run([vlib.MODEL, "golex"], input=data, stdout=subprocess.PIPE, stderr=subprocess.PIPE, timeout=3000)
    if p.returncode != 0:
        ctx.broken_ties.append(("model driver golex", p.stderr.decode("utf-8", "replace")[-2000:]))
    q = subprocess.run([vlib.GV, "golex"], input=("\n".join(f"{k}\t{r[5]}" for k, r in cases.items() if PANIC not in r[5]) + "\n").encode("utf-8"),
                       stdout=subprocess.PIPE, stderr=subprocess.PIPE, timeout=3000)
    if q.returncode != 0:
        ctx.broken_ties.append(("gv golex", q.stderr.decode("utf-8", "replace")[-2000:]))
    lean = {f[0]: f[1:] for f in (l.split("\t") for l in p.stdout.decode("utf-8", "replace").split("\n") if l)}
    rust = {f[0]: f[1:] for f in (l.split("\t") for l in q.stdout.decode("utf-8", "replace").split("\n") if l)}
    c = collections.Counter()
    nbad = 0
    sample = None
    for k, r in cases.items():
        if PANIC in r[5]:
            c["skipped(printer panics)"] += 1
            continue
        m, g = lean.get(k), rust.get(k)
        comp = r[1] == "ITEM"
        if m is None or m[0] != "ok" or len(m) < 7:
            nbad += 1
            if nbad <= 5:
                ctx.broken_ties.append(("go-lexer-model", f"{k}: gomlmodel golex gave {m[:2] if m else None}"))
            continue
        c["items_lexed"] += 1
        c["tokens"] += int(m[2]); c["automatic_semicolons"] += int(m[3])
        gf = (res.get(k) or [""] * 6)[5:6] == ["true"]
        wf = m[4] == "true" and gf
        if wf:
            c["items_all_tokens_wf_and_glueFree(hypotheses of lex_render_tokens)"] += 1
        if m[5] == "true":
            c["items_with_a_qualified_name(split at the dot)"] += 1
        if m[1] != "eq":
            # a synthetic item may hold texts outside Go's token grammar (empty names, NaN / inf spelled by Rust, …):
            # and glued tokens (`--nil`, `0.(T)`): there the model's pieces are not `wf` or not `glueFree`; for a wf, glue-free item and for every compiler-produced item a difference
            # breaks the tie
            if comp or wf:
                nbad += 1
                if nbad <= 5:
                    ctx.broken_ties.append(("go-lexer-model", f"{k}: Model/GoLex.lean on the real text gives {m[1]}, not the token list of the model's Doc.pieces: {vlib.unesc(r[5])[:400]}"))
            else:
                c["synthetic_not_wf_or_glued_and_lexed_differently"] += 1
            continue
        c["items_lex_equals_model_pieces"] += 1
        if g is None or g[0] != "ok":
            if comp:
                nbad += 1
                if nbad <= 5:
                    ctx.broken_ties.append(("go-lexer-model", f"{k}: harness/src/goparse.rs cannot tokenize the text ({g[1][:200] if g else None})"))
            else:
                c["synthetic_goparse_tokenizer_rejects"] += 1
            continue
        if g[1] != m[6]:
            txt = vlib.unesc(r[5])
            if not comp and ("--" in txt or "++" in txt or not wf):
                c["synthetic_goparse_differs(no ++ / -- tokens there, or not wf)"] += 1
            else:
                nbad += 1
                if nbad <= 5:
                    a, b = m[6].split("\x01"), g[1].split("\x01")
                    i = next((i for i in range(min(len(a), len(b))) if a[i] != b[i]), min(len(a), len(b)))
                    ctx.broken_ties.append(("go-lexer-model", f"{k}: the two lexers differ at token {i}: Lean {a[i:i + 3]} goparse.rs {b[i:i + 3]}"))
            continue
        c["items_both_lexers_agree"] += 1
        if sample is None and comp and int(m[3]) > 2:
            sample = {"id": k, "text": vlib.unesc(r[5])[:160], "tokens": m[6].split("\x01")[:14], "automatic_semicolons": int(m[3])}
    out = dict(sorted(c.items()))
    out["items_differing"] = nbad
    out["sample"] = sample
    return out


def evaluate(ctx, extra=()):
    found = []
    ok, out = ctx.gv("gopp", extra)
    path = os.path.join(ctx.run_dir, "gopp.cases.tsv")
    if not ok or not os.path.exists(path):
        return {"items": 0}, found
    rows = [l.split("\t") for l in open(path, encoding="utf-8", errors="replace").read().split("\n") if l]
    srcs = {r[0]: vlib.unesc(r[2]) for r in rows if len(r) > 2 and r[1] == "SRC"}
    cases = {r[0]: r for r in rows if len(r) > 6 and r[1] in ("ITEM", "SYN")}
    res = run_model(ctx, [f"{k}\t{r[2]}" for k, r in cases.items()])
    n_eq = n_panic = n_bad = 0
    roots = collections.Counter()
    long_lines = collections.Counter()
    syn = collections.Counter()
    max_line = 0
    samples = []
    forms = collections.Counter()
    for k, r in cases.items():
        m = res.get(k)
        real = r[3:6]
        for t in ("bin", "un", "cast", "slit", "alit", "call", "index", "field", "str", "float", "switch", "tswitch", "if", "loop", "go",
                  "structdef", "interface", "import", "alias", "func", "method", "blocke", "voidv", "fn", "array", "slice", "ptr"):
            if "(" + t + " " in r[2]:
                forms[t] += 1
        if m is None or m[0] != "ok" or len(m) < 6:
            n_bad += 1
            if n_bad <= 5:
                ctx.broken_ties.append(("go-printer-model", f"{k}: the model driver gave no text ({m[:1] if m else None}) for {r[2][:300]}"))
            continue
        if PANIC in real[2]:
            # the printer panics (ArrayLiteral whose type is neither array nor slice): the model marks the same place
            n_panic += 1
            if PANIC not in vlib.unesc(m[3]):
                n_bad += 1
                ctx.broken_ties.append(("go-printer-model", f"{k}: the printer panics, the model does not"))
            if r[1] == "ITEM":
                found.append(({"oracle": "go-printer", "kind": "panic"}, "go_pprint.rs panics on a Go AST the back end produced",
                              {"id": k, "src": srcs.get(k.split("#")[0]), "item": r[2][:600]}))
            continue
        if real != m[1:4]:
            n_bad += 1
            if n_bad <= 5:
                w = next(i for i in range(3) if real[i] != m[1 + i])
                a, b = real[w], m[1 + w]
                i = next((i for i in range(min(len(a), len(b))) if a[i] != b[i]), min(len(a), len(b)))
                ctx.broken_ties.append(("go-printer-model", f"{k}: at width {(40, 80, 120)[w]} the printer's text differs from the model's: real …{a[max(0, i - 80):i + 80]}… model …{b[max(0, i - 80):i + 80]}…"))
            # a text that depends on the width is also judged by the model-free oracle below (FILE rows)
            continue
        n_eq += 1
        width = max(len(l) for l in vlib.unesc(real[2]).split("\n"))
        max_line = max(max_line, width)
        for w in (40, 80, 120):
            if width > w:
                long_lines[w] += 1
        pf, gf = m[4] == "true", m[5] == "true"
        if len(m) > 7 and r[1] == "ITEM":
            roots["expression_roots(compiler items)"] += int(m[6])
            roots["roots_inside_print_expr_roundtrip(subset and paren-free)"] += int(m[7])
        if r[1] == "ITEM":
            if not pf:
                found.append(({"oracle": "go-printer-model", "kind": "needs-parentheses"},
                              "the back end produced an expression whose printed text (the printer writes no parentheses) reads as a different tree, or a form that is no Go expression",
                              {"id": k, "src": srcs.get(k.split("#")[0]), "text": vlib.unesc(real[2])[:800]}))
            if not gf:
                found.append(({"oracle": "go-printer-model", "kind": "tokens-glued"},
                              "two tokens the printer writes without a space between them read as one token (`--`, `&&`, …)",
                              {"id": k, "src": srcs.get(k.split("#")[0]), "text": vlib.unesc(real[2])[:800]}))
            if len(samples) < 2 and width > 120:
                samples.append({"id": k, "item": r[2][:200], "real_text": vlib.unesc(real[2])[:300], "model_text": "identical", "paren_free": pf})
        else:
            strict = ":strict#" in k
            verdict = r[6].split(" ")[0]
            syn[("strict" if strict else "free", verdict, "paren-free" if pf and gf else "not-paren-free")] += 1
            if strict and pf and gf and verdict != "ok":
                ctx.broken_ties.append(("paren-free predicate", f"{k}: the model says the text reads back as the tree, harness/src/goparse.rs says {r[6][:300]}: {vlib.unesc(real[2])[:600]}"))
    n_files = n_join_bad = 0
    for r in rows:
        if len(r) > 5 and r[1] == "FILE":
            n_files += 1
            if r[3] != "true":
                n_join_bad += 1
                ctx.broken_ties.append(("go-printer-model", f"{r[0]}: File::to_pretty is not the items' texts joined by a blank line"))
            for w, v in ((40, r[4]), (80, r[5])):
                if not v.startswith("ok"):
                    found.append(({"oracle": "go-printer", "kind": f"width-{w} {v.split(' ')[0]}"},
                                  f"printed at width {w} the Go text does not parse back to the Go AST it was printed from",
                                  {"id": r[0], "src": srcs.get(r[0]), "detail": v[:600]}))
    stats = next((r[1] for r in rows if r[0] == "#STATS"), "")
    cov = {
        "items_compared_at_widths_40_80_120": n_eq + n_panic, "items_byte_equal": n_eq, "printer_panics_mirrored": n_panic, "items_differing": n_bad,
        "items_from_compiler": sum(1 for r in cases.values() if r[1] == "ITEM"), "items_synthetic": sum(1 for r in cases.values() if r[1] == "SYN"),
        "harness_stats(before de-duplication)": stats, "files_checked_joined_and_reparsed_at_40_80": n_files,
        "longest_line": max_line, "items_with_a_line_longer_than": {str(k): v for k, v in sorted(long_lines.items())},
        "ast_forms_seen(items containing)": dict(sorted(forms.items())),
        "synthetic(strictness, goparse verdict, model verdict)": {" / ".join(k): v for k, v in sorted(syn.items())},
        "theorem_reach": dict(roots),
        "golex(character-level lexer on the real text)": golex(ctx, cases, res),
        "samples": samples,
        "rule": "distinct = distinct item dumps; every item is printed by the real printer at three widths and by the model; equality is on bytes",
    }
    return cov, found


def add_to(ctx, prop, cov):
    """what C02 calls: the printer tie and its oracles inside C02's check"""
    if ctx.replay:
        try:
            import json
            if json.load(open(ctx.replay)).get("signature", {}).get("oracle") not in ("go-printer-model", "go-printer"):
                return
        except Exception:
            return
    gcov, found = evaluate(ctx)
    for sig, what, payload in found:
        ctx.report(sig, what, payload)
    cov["gopp"] = gcov
    ctx.assumptions.append("go_pprint.rs has its own model (Model/GoPrint.lean) tied byte for byte by `gv gopp` at widths 40/80/120; Props/GoPrint.lean proves on the model: the layout does not depend on the width (the printer has no soft break), the printed text of a paren-free expression parses back to it by Go's precedence rules, escape_go_string is inverted by Go's string-literal decoding, no line break separates tokens that Go's semicolon rule would split; Go's lexer at character level is Model/GoLex.lean: Props/GoLex.lean proves its skeleton (blanks, newlines, indentation, automatic semicolons: `lex_layout`) and identifiers / keywords (`lexTok_word`, `lex_render_tokens_partial`); that it returns the model's token pieces on numbers, strings, operators and glue-free adjacent tokens is validated on the real text of every item (`golex` tie, two independent lexers), not proved")


def run(ctx):
    ctx.extract()
    ctx.build_lean([PROP_MODULE, LEX_MODULE])
    if not ctx.build_harness():
        return ctx.finish("proof", {"programs": 0, "disagreements_checked": 0, "samples": []}, [], "lake build")
    cov, found = evaluate(ctx)
    for sig, what, payload in found:
        ctx.report(sig, what, payload)
    cov["programs"] = cov.get("items_compared_at_widths_40_80_120", 0)
    cov["disagreements_checked"] = len(found)
    return ctx.finish("proof", cov, ["Lean 4 kernel", "harness/src/gopp.rs", "harness/src/godump.rs", "Driver/GoPP.lean", "tools/props/gopp.py"],
                      f"lake build {PROP_MODULE} + #print axioms; gv gopp | gomlmodel gopp")
