"""The typer's CONSTRAINT GENERATION (`typer/check.rs`, `localenv.rs`, `toplevel.rs::typecheck_fn`) — a stream of the C03 check.

`gv infer` (harness/src/infer.rs) generates programs (a prelude with structs, monomorphic and generic functions; 2-4 generated
function bodies each: well typed, or with exactly ONE injected type error of a named kind), runs the REAL typer on them with the
cfg(goml_verif) observer of `typecheck_fn` installed and prints per function: the HIR body (input of the model), the number of
keys before / after generation, the constraint queue BEFORE `solve`, the classes of the diagnostics of generation, the type
recorded for every expression node before substitution, the diagnostics of `solve`, the left-over queue, the normal form of
every key, and the FINAL type of every node (after `finalize_types`).  `gomlmodel infer` (Model/Infer.lean, Model/Solve.lean)
answers the same inputs.
Tie: the two answers are compared function by function (a difference is a broken tie); the certificate of
`Props/Infer.lean::infer_sound_partial` is evaluated on every function without diagnostics (false = broken tie).
Oracle on the implementation's own output (no model of inference): every program generated well typed is accepted; every
deliberately ill-typed program is rejected by the typer; for every function of an accepted program the REAL final types satisfy the
declarative judgement `Model/InferSpec.lean::Wt` (evaluated by the driver on the real dump: uses have the type of their binder,
references are instances of the signature, callees / conditions / branches / operands / patterns / projections / fields agree, no
type variable is left) and the real run of that function pushed no diagnostic.
"""
import os, subprocess
import vlib
from props.unify import parse, show

PARTS = ["n1", "queue", "gdiags", "pre", "sdiags", "rest", "n2", "vars", "final"]


def parts(sx):
    return {x[0]: x[1:] for x in sx[1:] if isinstance(x, list) and x} if isinstance(sx, list) else {}


def first_diff(a, b):
    pa, pb = parts(a), parts(b)
    for k in PARTS:
        if pa.get(k) != pb.get(k):
            xa, xb = pa.get(k), pb.get(k)
            if isinstance(xa, list) and isinstance(xb, list):
                for i, (u, v) in enumerate(zip(xa, xb)):
                    if u != v:
                        return f"{k}[{i}]: real {show(u)[:200]} / model {show(v)[:200]}"
                return f"{k}: lengths {len(xa)} / {len(xb)}"
            return f"{k}: real {str(xa)[:200]} / model {str(xb)[:200]}"
    extra = sorted(set(pa) ^ set(pb))
    return "components " + ",".join(extra) if extra else "?"


def kinds_of(sx, acc):
    if isinstance(sx, list) and sx:
        if isinstance(sx[0], str) and sx[0][:1].isalpha() and sx[0] not in ("params", "ann", "noann", "arm"):
            acc[sx[0]] = acc.get(sx[0], 0) + 1
        for y in sx[1:]:
            kinds_of(y, acc)


def run(ctx):
    path = os.path.join(ctx.run_dir, "infer.cases.tsv")
    if os.path.exists(path):
        os.remove(path)
    ok, out = ctx.gv("infer")
    rows = vlib.read_tsv(path) if ok and os.path.exists(path) else []
    progs = {r[0]: r for r in rows if len(r) >= 5 and r[1] == "PROG"}
    cases = [r for r in rows if len(r) >= 4 and r[1] == "INF"]
    skips = [r for r in rows if len(r) >= 3 and r[1] == "SKIP"]
    gen_cov = {}
    for r in rows:
        if r[0] == "#COV" and len(r) > 1:
            for kv in r[1].split(";"):
                k, _, v = kv.partition("=")
                gen_cov[k] = int(v) if v.isdigit() else v
    if not cases:
        ctx.broken_ties.append(("gv infer", "no cases: " + out[-500:]))
        return {"functions": 0}
    parsed = {}
    lines = []
    for r in cases:
        ri = parse(r[3])
        parsed[r[0]] = ri
        fin = [x for x in ri[1:] if isinstance(x, list) and x and x[0] == "final"] if isinstance(ri, list) else []
        lines.append(f"{r[0]}\t{r[2]}\t{show(fin[0]) if fin else ''}")
    p = subprocess.run([vlib.MODEL, "infer"], input="\n".join(lines) + "\n", stdout=subprocess.PIPE, stderr=subprocess.PIPE,
                       text=True, timeout=3000)
    if p.returncode != 0:
        ctx.broken_ties.append(("model driver infer", p.stderr[-1000:]))
    model = {}
    for l in p.stdout.split("\n"):
        f = l.split("\t")
        if len(f) >= 2:
            model[f[0]] = f[1:]

    n_diff = n_clean = n_cert = n_cert_na = n_realwt = n_constraints = n_nodes = n_outside_model = n_corpus_in = n_untyped = n_corpus_rw = n_cat_in = 0
    gclasses, sclasses, node_kinds, ckinds, distinct, samples, cert_other = {}, {}, {}, {}, set(), [], {}
    diffs = []
    for r in cases:
        cid, inp, impl = r[0], r[2], r[3]
        pid = cid.split(".")[0]
        prow = progs.get(pid, [pid, "PROG", "", "?", "?", ""])
        src, verdict, expect = vlib.unesc(prow[2]), prow[3], prow[4]
        ri = parsed[cid]
        res = parts(ri)
        payload = {"id": cid, "program": src, "expect": expect, "verdict": verdict, "real_answer": impl[:1500]}
        si = parse(inp)
        body = [x for x in si[1:] if isinstance(x, list) and x and x[0] == "body"]
        kinds_of(body[0][1] if body else [], node_kinds)
        if "cyclic" in res or "panic" in res:
            ctx.report({"oracle": "infer-no-crash", "kind": "cyclic" if "cyclic" in res else "panic"},
                       "the real typer panicked / left a cyclic store while checking this function", payload)
            continue
        gd, sd = res.get("gdiags", []), res.get("sdiags", [])
        for d in gd:
            gclasses[d] = gclasses.get(d, 0) + 1
        for d in sd:
            sclasses[d] = sclasses.get(d, 0) + 1
        for c in res.get("queue", []):
            ckinds[c[0]] = ckinds.get(c[0], 0) + 1
        n_constraints += len(res.get("queue", []))
        n_nodes += len(res.get("pre", []))
        distinct.add((tuple(gd), tuple(sd), tuple(sorted(set(c[0] for c in res.get("queue", [])))), len(res.get("queue", [])),
                      int(res.get("n1", ["0"])[0]) - int((parts(si).get("n0") or ["0"])[0])))
        clean = not gd and not sd
        n_clean += clean
        # ---- tie
        m = model.get(cid)
        if m and "out-of-fragment" in m[0]:
            # the model itself says the body leaves the fragment (a method call on a type-parameter receiver, a dyn expected type)
            n_outside_model += 1
            continue
        corpus = cid[0] in "KA"   # K: real corpus, A: the C03 call-form catalogue (accepted twins)
        n_corpus_in += cid.startswith("K")
        n_cat_in += cid.startswith("A")
        if not m or show(parse(m[0])) != show(ri):
            n_diff += 1
            if len(diffs) < 5:
                d = first_diff(ri, parse(m[0])) if m and m[0].startswith("(") else (m[0] if m else "no answer")
                diffs.append(f"{cid} [{expect}] {d}\n  input: {inp[:700]}")
        cert = m[1] if m and len(m) > 1 else "(cert ?)"
        if clean:
            if cert == "(cert true)":
                n_cert += 1
            elif cert in ("(cert field)", "(cert error-node)"):
                # a field access, or a form without a declarative rule yet (method callee, array literal: obligation `bad`)
                n_cert_na += 1
            else:
                cert_other[cert] = cert_other.get(cert, 0) + 1
                if cert_other[cert] <= 3:
                    ctx.broken_ties.append(("infer certificate",
                                            f"{cid}: no diagnostic but the certificate of infer_sound_partial is {cert}\n  input: {inp[:700]}"))
        # ---- oracle on the real output
        if verdict == "accepted":
            if not clean:
                ctx.report({"oracle": "infer-accepted-clean", "kind": (gd + sd)[0]},
                           "the program was ACCEPTED although the typer pushed a diagnostic while checking this function", payload)
            rw = m[2] if m and len(m) > 2 else "(realwt ?)"
            if corpus:
                # corpus bodies call builtins (wildcard array lengths, `Builtin` callees) the strict judgement on final types does not know
                n_corpus_rw += rw == "(realwt ok)"
            elif rw == "(realwt ok)":
                n_realwt += 1
            elif rw == "(realwt untyped)":
                n_untyped += 1  # a form without a declarative rule yet (method-call forms, array literals)
            else:
                ob = parse(rw)
                kind = ob[1][1][0] if isinstance(ob, list) and len(ob) > 1 and isinstance(ob[1], list) and len(ob[1]) > 1 \
                    and isinstance(ob[1][1], list) else str(ob[1] if isinstance(ob, list) and len(ob) > 1 else rw)
                ctx.report({"oracle": "infer-accepted-well-typed", "kind": kind},
                           "the program was ACCEPTED but the final types the typer recorded for this function do not satisfy the "
                           "declarative typing judgement (Model/InferSpec.lean): " + rw[:300], payload)
        if len(samples) < 2 and clean and 300 < len(inp) < 900:
            samples.append({"id": cid, "input": inp, "real_answer": impl[:700]})
    if diffs:
        ctx.broken_ties.append(("infer model≠impl", f"{n_diff} functions differ; first:\n" + "\n".join(diffs)))

    # ---- program-level oracle
    n_ok = n_ill = 0
    ill_kinds, ill_accepted = {}, {}
    for pid, r in progs.items():
        src, verdict, expect = vlib.unesc(r[2]), r[3], r[4]
        msgs = r[5] if len(r) > 5 else ""
        payload = {"id": pid, "program": src, "expect": expect, "verdict": verdict, "messages": msgs[:600]}
        if expect in ("corpus", "catalogue"):
            continue
        if expect == "ok":
            n_ok += 1
            if verdict != "accepted":
                if verdict == "panic":
                    ctx.report({"oracle": "infer-no-crash", "kind": "panic"}, "the compiler panicked on a generated well-typed program", payload)
                else:
                    ctx.broken_ties.append(("infer generator", f"{pid}: generated as well typed but {verdict}: {msgs[:300]}\n{src[:600]}"))
        else:
            n_ill += 1
            kind = expect.split(":", 1)[1] if ":" in expect else expect
            ill_kinds[kind] = ill_kinds.get(kind, 0) + 1
            if verdict != "typer":
                ill_accepted[kind] = ill_accepted.get(kind, 0) + 1
                ctx.report({"oracle": "infer-ill-typed-rejected", "kind": kind, "verdict": verdict},
                           f"a program with one injected type error ({kind}) was not rejected by the typer (verdict: {verdict})", payload)
    return {
        "programs": len(progs), "programs_generated_well_typed": n_ok, "programs_with_one_injected_error": n_ill,
        "injected_error_kinds": ill_kinds, "injected_errors_not_rejected_by_the_typer": ill_accepted,
        "functions_compared": len(cases) - n_outside_model, "functions_outside_the_fragment(skipped)": len(skips) + n_outside_model,
        "REAL_CORPUS(top-level functions of package Main of the corpus programs)": {
            "programs": gen_cov.get("corpus_programs", 0), "functions": gen_cov.get("corpus_functions", 0),
            "inside_the_model_and_compared": n_corpus_in, "of_which_real_final_types_pass_the_strict_judgement(counted only)": n_corpus_rw,
            "outside_the_model": gen_cov.get("corpus_functions", 0) - n_corpus_in,
            "outside_by_first_unsupported_node": {k[len("corpus_outside_"):]: v for k, v in sorted(gen_cov.items()) if k.startswith("corpus_outside_")},
            "outside_found_by_the_model(method call on a type-parameter receiver, dyn)": n_outside_model},
        "C03_CALL_FORM_CATALOGUE(accepted twins of the arity/argtype call forms, incl. overlapping inherent impls)": {
            "programs": gen_cov.get("catalogue_programs", 0), "functions": gen_cov.get("catalogue_functions", 0),
            "inside_the_model_and_compared": n_cat_in,
            "outside_by_first_unsupported_node": {k[len("catalogue_outside_"):]: v for k, v in sorted(gen_cov.items()) if k.startswith("catalogue_outside_")}},
        "accepted_functions_with_a_form_without_declarative_rule(method call, array)": n_untyped,
        "constraints_compared": n_constraints, "constraint_kinds": ckinds, "expression_nodes_with_compared_types": n_nodes,
        "hir_node_kinds(in compared bodies)": {k: node_kinds[k] for k in sorted(node_kinds)},
        "distinct(generation diagnostics, solve diagnostics, constraint kinds, queue length, fresh keys)": len(distinct),
        "generation_diagnostic_classes(real)": gclasses, "solve_diagnostic_classes(real)": sclasses,
        "functions_without_any_diagnostic": n_clean, "certificate_of_infer_sound_partial_true": n_cert,
        "certificate_not_applicable(field access)": n_cert_na, "certificate_other": cert_other,
        "accepted_functions_whose_REAL_final_types_satisfy_the_declarative_judgement": n_realwt,
        "model_diffs": n_diff, "samples": samples, "generator": {k: gen_cov[k] for k in sorted(gen_cov)},
    }
