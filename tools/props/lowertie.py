"""CST→AST lowering tie (round 11): the REAL rowan tree of every text, lowered by `Model/Lower.lean`, must give the
REAL `ast::File` (or the real diagnostics).  Shared by ./check C11 (all streams) and ./check C05 (name streams).

`gv lower <mode>` prints, per text, the real tree and what the real `ast::lower::lower` returns for it;
`gomlmodel lower` lowers the same tree with the model; the two outcome texts must be equal.
Model-free oracles on the implementation's own outputs: no panic (`lower-total`), and the same program written with
LF and with CRLF line ends is read as the same tree (`line-ends`)."""
import os, subprocess
import vlib


def esc(s):
    return s.replace("\\", "\\\\").replace("\n", "\\n").replace("\t", "\\t").replace("\r", "\\r")


def _gv_lower(ctx, mode, texts=None):
    cmd = [vlib.GV, "lower", mode, "--seed", str(ctx.seed), "--tier", ctx.tier, "--out", ctx.run_dir]
    env = dict(vlib.ENV, GV_SCRATCH=os.path.join(vlib.CACHE, "scratch"), GV_VERIF=vlib.VERIF,
               GV_REPO=os.environ.get("GV_REPO", "/repo"))
    inp = None
    if texts is not None:
        inp = "".join(f"{i}\t{s}\t{esc(t)}\n" for i, s, t in texts)
    p = subprocess.run(cmd, env=env, input=inp, stdout=subprocess.PIPE, stderr=subprocess.STDOUT, text=True, timeout=3000)
    if p.returncode != 0:
        ctx.broken_ties.append((f"harness gv lower {mode}", p.stdout[-1500:]))
        return []
    path = os.path.join(ctx.run_dir, f"lower.{mode}.tsv")
    return [l.split("\t") for l in open(path, encoding="utf-8", errors="replace").read().split("\n") if l]


def _model(ctx, rows):
    path = os.path.join(ctx.run_dir, "lower.model.in")
    with open(path, "w", encoding="utf-8") as f:
        for r in rows:
            f.write(f"{r[0]}\t{r[3]}\n")
    p = vlib.srun([vlib.MODEL, "lower"], stdin=open(path, encoding="utf-8"), stdout=subprocess.PIPE,
                  stderr=subprocess.PIPE, text=True, timeout=3000)
    if p.returncode != 0:
        ctx.broken_ties.append(("model driver lower", p.stderr[-1500:]))
    res = {}
    for l in p.stdout.split("\n"):
        f = l.split("\t")
        if len(f) >= 2:
            res[f[0]] = f[1:]
    return res


def first_diff(a, b, w=110):
    i = 0
    while i < min(len(a), len(b)) and a[i] == b[i]:
        i += 1
    return f"real …{a[max(0, i - w):i + w]}… model …{b[max(0, i - w):i + w]}…"


def run(ctx, modes, texts=None, tag="lower"):
    """returns a coverage dict; `texts`: [(id, stream, source)] lowered through `gv lower texts`"""
    if not os.path.exists(vlib.MODEL):
        return {}
    rows = []
    kinds = {}
    for mode in modes:
        rows += _gv_lower(ctx, mode)
    if texts:
        rows += _gv_lower(ctx, "texts", texts)
    cases = []
    for r in rows:
        if r[0] == "#KINDS":
            for kv in (r[1].split(" ") if len(r) > 1 else []):
                k, _, v = kv.rpartition(":")
                if k:
                    kinds[k] = kinds.get(k, 0) + int(v)
        elif len(r) >= 7 and r[1] == "LOWER":
            cases.append(r)
    model = _model(ctx, cases) if cases else {}
    streams, n_eq, n_ast, n_diag, n_pe, diffs, distinct = {}, 0, 0, 0, 0, [], set()
    n_class_bad = n_chain = n_chain_ok = 0
    samples = []
    crlf = {}
    for r in cases:
        cid, stream, real, src = r[0], r[2], r[5], vlib.unesc(r[6])
        st = streams.setdefault(stream, {"texts": 0, "ast": 0, "diagnostics": 0, "parse_errors": 0})
        st["texts"] += 1
        n_pe += r[4] == "pe=1"
        st["parse_errors"] += r[4] == "pe=1"
        if real.startswith("(ok "):
            n_ast += 1
            st["ast"] += 1
        else:
            n_diag += 1
            st["diagnostics"] += 1
        if len(r[3]) > 400:
            distinct.add(r[3])
        if real.startswith("PANIC"):
            ctx.report({"oracle": "lower-total", "kind": "ast::lower panics"},
                       "CST→AST lowering panics on a tree the tree builder produces (a missing child must be a diagnostic)",
                       {"id": cid, "panic": real, "src": src})
        cls = r[7] if len(r) > 7 else "class=ok"
        if cls != "class=ok":
            n_class_bad += 1
            kinds_c = sorted({x.split(":")[0] for x in cls[len("class="):].split(",")})
            ctx.report({"oracle": "lower-classification", "kinds": kinds_c},
                       "on the real lowered AST a bare name is classified against the lexical scope rules: a name the scope rules call a "
                       "constructor of the file (no enclosing local binder of that spelling) must be lowered as EConstr, every other bare "
                       "name as EPath",
                       {"id": cid, "misclassified(kind:name@function)": cls[len("class="):], "src": src})
        if stream == "chains":
            n_chain += 1
            exp = r[8] if len(r) > 8 else ""
            if exp and exp not in real:
                ctx.report({"oracle": "prefix-postfix-chain", "kind": "postfix chain after a prefix operator re-associated wrongly"},
                           "a prefix operator applied to an atom followed by a chain of calls / field accesses / tuple projections must be "
                           "read as the prefix operator applied to the whole chain (postfix binds tighter than prefix)",
                           {"id": cid, "src": src, "expected_subtree": exp, "observed": real[:1500]})
            elif exp:
                n_chain_ok += 1
        m = model.get(cid)
        if not m:
            diffs.append(f"{cid}: no model output")
            continue
        if len(m) > 1 and m[1] != "stuck=false starved=false locals=0":
            ctx.broken_ties.append(("Model/Lower.lean: stuck / out of fuel / unbalanced binder stack (contradicts lower_total / "
                                    "lower_binder_stack_balanced)", f"{cid}: {m[1]}"))
        if m[0] == real:
            n_eq += 1
        else:
            diffs.append(f"{cid}: {first_diff(real, m[0])}")
        if stream == "crlf" and "|" in cid:
            k, v = cid.rsplit("|", 1)
            crlf.setdefault(k, {})[v] = (real.replace("\\r\\n", "\\n"), src)
        if stream == "gen" and len(samples) < 2 and real.startswith("(ok ") and len(src) < 900:
            samples.append({"id": cid, "stream": stream, "src": src, "real_ast": real[:600], "model_equal": m[0] == real})
    for d in diffs[:8]:
        ctx.broken_ties.append(("Model/Lower.lean ≠ crates/ast/src/lower.rs on a real tree", d))
    if len(diffs) > 8:
        ctx.broken_ties.append(("…", f"{len(diffs) - 8} more lowering differences"))
    n_crlf_ok = 0
    for k, v in crlf.items():
        if "lf" in v and "crlf" in v:
            if v["lf"][0] == v["crlf"][0]:
                n_crlf_ok += 1
            else:
                ctx.report({"oracle": "line-ends", "kind": "crlf-source-read-differently"},
                           "the same program written with CRLF line ends is lowered to a different tree than with LF line ends",
                           {"id": k, "difference": first_diff(v["lf"][0], v["crlf"][0]).replace("real", "LF", 1).replace("model", "CRLF", 1),
                            "src(LF)": v["lf"][1][:3000]})
    node_kinds = sorted(k for k in kinds if k.upper() == k)
    return {
        f"{tag}_texts": len(cases), f"{tag}_model_equals_real": n_eq, f"{tag}_asts_compared(real lowering succeeded)": n_ast,
        f"{tag}_diagnostic_lists_compared(real lowering failed)": n_diag, f"{tag}_texts_with_parse_errors(error-recovered trees)": n_pe,
        f"{tag}_streams": streams, f"{tag}_distinct_nontrivial_trees": len(distinct),
        f"{tag}_node_kinds_exercised": len(node_kinds), f"{tag}_node_kinds": {k: kinds[k] for k in node_kinds},
        f"{tag}_classification_oracle(real AST vs scope rules)": {"asts_checked": n_ast, "misclassified": n_class_bad},
        f"{tag}_prefix_postfix_chains": {"programs": n_chain, "read_as_expected": n_chain_ok},
        f"{tag}_crlf_pairs": len(crlf), f"{tag}_crlf_pairs_equal": n_crlf_ok,
        f"{tag}_samples": samples,
        f"{tag}_rule": "one text = one source file parsed by the real parser; the real rowan tree (every node and token) is lowered by "
                       "Model/Lower.lean and by the real ast::lower::lower; equal = same ast::File dump (astdump.rs) or, when lowering "
                       "reports diagnostics, the same messages in the same order; non-trivial = tree dump longer than 400 characters",
    }
