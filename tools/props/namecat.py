"""The name-test catalogue (harness/src/nametest.rs, `gv c02names`): every kind of user-named item × every
string the back end compares names with (re-read from the Rust by extract.c02_name_tests) × every relation a
sloppy test could confuse.  Each program is compiled by the real pipeline; the REAL Go AST is judged by
Go.Check (declared exactly once, declared before use, types), the printed text is parsed back, and a program
that the front end accepts must not make the back end panic.  No model of the compiler is involved."""
import collections, os, sys
import vlib
from props import c01

sys.path.insert(0, os.path.dirname(os.path.dirname(os.path.abspath(__file__))))


ITEM_CLASS = {
    "fn": "fn", "closure-host": "fn", "branch-result-fn": "fn", "generic-fn": "fn", "extern-fn": "fn",
    "pkg-fn": "pkg-fn", "pkg-generic-fn": "pkg-fn",
    "struct": "type", "enum": "type", "generic-struct": "type", "generic-enum": "type", "extern-type": "type",
    "pkg-struct": "pkg-type", "pkg-enum": "pkg-type",
    "variant": "variant", "field": "field", "trait": "trait", "pkg-trait": "pkg-trait",
    "trait-method": "method", "inherent-method": "method", "pkg-inherent-method": "pkg-method", "pkg-trait-method": "pkg-method",
    "local": "local", "type-parameter": "type-parameter", "pkg-name": "package",
    "dyn-method": "method", "trait-instance-impl-method": "method", "generic-impl-method": "method",
    "closure-param": "local", "pattern-binder": "local", "fn-value": "fn",
    "generic-variant": "variant", "generic-field": "field", "pkg-variant": "variant", "pkg-field": "field",
}
REL_CLASS = {"=w": "equal", "case": "other-case", "control": "control"}   # every other relation: "affix"


def signature(kind, rel, stem, word_class=None, failure=None):
    """which name test is passed by accident, by what kind of name: the class of the item (where its name ends
    up in the Go), the relation class and the stem; the individual Go.Check error is in the payload.
    A word of the Go dictionary (no name test of the back end: the name means something to Go) is keyed by its
    CLASS — go-keyword / go-predeclared / runtime-name — not by the word: one defect of an emission site shows
    with every keyword alike — together with HOW the output fails (compiler-panic, go-printer:parse-error,
    gocheck:<first error code>), so that a recorded finding does not hide another failure of the same cell."""
    if word_class is not None:
        return {"oracle": "name-test", "item": ITEM_CLASS.get(kind, kind), "relation": "equal", "go_word": word_class, "failure": failure}
    return {"oracle": "name-test", "item": ITEM_CLASS.get(kind, kind), "relation": REL_CLASS.get(rel, "affix"), "stem": stem}


def evaluate(ctx, classify=None):
    """-> (coverage, [(signature, what, payload)])"""
    found = []
    try:
        import extract
        nt = extract.c02_name_tests()
    except Exception as e:
        ctx.broken_ties.append(("translator", f"c02_name_tests: {e}"))
        return {"programs": 0}, found
    stems = nt["stems"]
    try:
        words = {w: c for w, c in extract.c02_go_words().items() if w not in stems}
    except Exception as e:
        ctx.broken_ties.append(("translator", f"c02_go_words: {e}"))
        words = {}
    progs, feats = c01.collect(ctx, sub="c02names", extra=["--stems", ",".join(stems), "--words", ",".join(words)])
    rows = vlib.read_tsv(os.path.join(ctx.run_dir, "c02names.cases.tsv"))
    meta = {r[0]: r[2:6] for r in rows if len(r) >= 6 and r[1] == "NAME"}
    # the text oracle's own negative controls: goparse.rs refuses every Go keyword in every identifier position
    st = next((r for r in rows if r[0] == "#GOPARSE-KEYWORDS"), None)
    if st is None or st[1] != "ok":
        ctx.broken_ties.append(("goparse keyword self-test", "missing" if st is None else vlib.unesc(st[2])[:600]))
    lines = [f"{pid}\t{d['stages']['go']}" for pid, d in progs.items() if "go" in d["stages"]]
    res = c01.gocheck(ctx, lines) if lines else {}
    n = collections.Counter()
    by_kind, by_rel = collections.Counter(), collections.Counter()
    rejected_at = collections.Counter()
    codes = collections.Counter()
    by_class, acc_class = collections.Counter(), collections.Counter()
    samples = []
    for pid, d in sorted(progs.items()):
        kind, rel, stem, name = meta.get(pid, ("?", "?", "?", "?"))
        case = f"{kind}/{rel}:{stem}"
        n["programs"] += 1
        payload = {"id": pid, "item_kind": kind, "relation": rel, "stem": stem, "name": name, "src": d.get("src")}
        wclass = words.get(stem) if rel == "=w" else None
        sig_of = lambda failure: signature(kind, rel, stem, wclass, failure)
        if wclass:
            payload["go_word_class"] = wclass
            n["go_word_programs"] += 1
            by_class[wclass] += 1
        if "panic" in d:
            n["panic"] += 1
            found.append((sig_of("compiler-panic"), f"a {kind} named `{name}`: the front end accepts the program and the compiler panics: {d['panic'][:120]}",
                          dict(payload, failure="compiler-panic", panic=d["panic"][:400])))
            continue
        if "reject" in d:
            n["rejected"] += 1
            rejected_at[d["reject"][0]] += 1
            if rel == "control":
                ctx.broken_ties.append(("name-test template", f"{pid}: the control program is rejected: {d['reject'][1][:200]}"))
            continue
        n["accepted"] += 1
        if wclass:
            acc_class[wclass] += 1
        by_kind[kind] += 1
        by_rel[rel] += 1
        r = res.get(pid)
        if r is None or r[0] in ("decode-error", "parse-error"):
            ctx.broken_ties.append(("gocheck driver", f"{pid}: {r}"))
            continue
        # the Go.Check errors of the program (its real AST), the first one in the text
        errs = []
        if r[0] != "ok":
            for e in r[1].split(" ;; "):
                parts = e.split("|", 2)
                errs.append({"code": parts[0], "function": parts[1] if len(parts) > 1 else "", "detail": (parts[2] if len(parts) > 2 else "")[:200]})
        pp = d.get("pprint")
        if pp is not None and pp[0] != "ok":
            found.append((sig_of("go-printer:" + pp[0]), f"a {kind} named `{name}`: the printed Go text does not parse as Go / not back to the Go AST it was printed from: {pp[1][:140]}"
                          + (f"; Go.Check on the AST: {errs[0]['code']} {errs[0]['detail'][:80]}" if errs else ""),
                          dict(payload, failure="go-printer:" + pp[0], detail=pp[1][:600], errors=errs[:8])))
            continue
        if r[0] == "ok":
            n["accepted_by_gocheck"] += 1
            if len(samples) < 3 and rel in ("x_w", "case") and kind in ("inherent-method", "pkg-fn", "struct"):
                samples.append({"id": pid, "name": name, "src": (d.get("src") or "")[:300], "gocheck": "ok"})
            continue
        if rel == "control":
            ctx.broken_ties.append(("name-test template", f"{pid}: Go.Check rejects the control program: {r[1][:200]}"))
            continue
        # one report per program
        n["gocheck_rejects"] += 1
        codes[errs[0]["code"]] += 1
        why = f"a Go {wclass[3:]}" if wclass and wclass.startswith("go-") else "a name the emitted runtime uses" if wclass else f"{rel} of `{stem}`, a name the back end tests for"
        found.append((sig_of("gocheck:" + errs[0]["code"]), f"a {kind} named `{name}` ({why}): the emitted Go is rejected by Go's rules: "
                           f"{errs[0]['code']} {errs[0]['detail'][:90]}" + (f" (+{len(errs) - 1} more)" if len(errs) > 1 else ""),
                      dict(payload, failure="gocheck:" + errs[0]["code"], errors=errs[:8])))
    cov = {"programs": n["programs"], "accepted": n["accepted"], "accepted_and_gocheck_ok": n["accepted_by_gocheck"],
           "rejected_by_front_end": n["rejected"], "rejected_at": dict(rejected_at), "compiler_panics": n["panic"], "rejected_by_gocheck": n["gocheck_rejects"], "first_error_codes": dict(codes),
           "go_words": {"words": len(words), "programs": n["go_word_programs"], "programs_by_class": dict(by_class), "accepted_by_class": dict(acc_class),
                        "classes": "go-keyword: the 25 keywords of the Go specification; go-predeclared: the 44 identifiers of the universe block; runtime-name: helper functions, imports, fixed parameter / field names and gensym prefixes of the emitted file (re-read from go/runtime.rs, go/compile.rs)"},
           "goparse_keyword_selftest": "11 identifier positions x 25 Go keywords: all refused, the control identifier parses" if st is not None and st[1] == "ok" else "FAILED",
           "stems_read_from_the_rust": stems, "name_test_sites": [f"{f}:{ln} {op} {lit!r}" for f, ln, op, lit in nt["sites"]],
           "accepted_by_item_kind": dict(by_kind), "accepted_by_relation": dict(by_rel), "generator": feats, "samples": samples}
    return cov, found
