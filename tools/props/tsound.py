"""Type soundness of the reference semantics `Sem` w.r.t. `Wt` (C03) and static dispatch of trait calls (C07 / C01).

Evaluated on the REAL Core and Mono dumps of every program of the C01 streams by `gomlmodel tsound`
(lean/GomlVerif/Driver/TSound.lean):

* the decidable hypothesis of `sem_preserves_types_partial` (Props/C03.lean): `sigClosedB S && ValTy.okProg S P`
  (every function `Wt.wtFn` and inside the fragment `ValTy.okE`), with the first reason outside;
* the oracle for `traitcall_static_dispatch`, which does not go through the fragment: the real Mono dump (where
  `mono.rs` has replaced every `ETraitCall` by a direct call of the implementation it chose from the STATIC type) is
  run a second time with every such call turned back into a dynamically dispatched trait call that only finds the
  chosen function when the key of the RUNTIME receiver is the key of that function's declared receiver type; the two
  runs must end alike.  The same on the Core dump for trait calls whose receiver annotation is concrete.
  A disagreement on a real program is a concrete failing input (ctx.report)."""
import os, subprocess
import vlib

# the four places where the fragment asks for more than Wt.errs does (reasons of Driver/TSound / ValTy.whyE)
STRONGER = ("cget:variant-not-established", "cget:not-on-a-variable", "cget:kind", "constr:kind",
            "traitcall:dispatch-row-signature", "call:not-the-instance-matchTy-finds", "call:annotation-vs-arguments")

def definite(status):
    return status == "ok" or status.startswith("panic:")

def evaluate(ctx, progs, fuel="200000"):
    lines = []
    for pid, d in progs.items():
        st = d.get("stages", {})
        if "core" in st and "mono" in st and d.get("genv") and d.get("sig"):
            lines.append("\t".join([pid, st["core"], d["genv"], d["sig"][0], d["sig"][1], st["mono"]]))
    cov = {"programs": len(lines)}
    if not lines:
        ctx.broken_ties.append(("tsound", "no program with Core + Mono dump, GENV and SIG lines"))
        return cov
    p = vlib.srun(["bash", "-c", f"ulimit -s unlimited; exec {vlib.MODEL} tsound"], input="\n".join(lines) + "\n",
                  stdout=subprocess.PIPE, stderr=subprocess.PIPE, text=True, timeout=3000,
                  env=dict(os.environ, GV_FUEL=fuel))
    if p.returncode != 0:
        ctx.broken_ties.append(("model driver tsound", p.stderr[-1000:]))
    res = {}
    for l in p.stdout.split("\n"):
        f = l.split("\t")
        if len(f) >= 2:
            res[f[0]] = f[1:]
    n_wt = n_in = n_in_tc = n_stronger = 0
    why, by_stream = {}, {}
    core_sites = core_sites_ok = core_other = 0
    core_agree = core_skip = 0
    mono_sites = mono_progs = mono_agree = mono_indef = 0
    in_stuck = []
    samples_in, samples_out = [], []
    for pid in [l.split("\t", 1)[0] for l in lines]:
        r = res.get(pid)
        if r is None or len(r) < 13:
            ctx.broken_ties.append(("model driver tsound", f"{pid}: {(r or ['no answer'])[0][:200]}"))
            continue
        wt, frag, reason, nc, nc_ok, n_other, o, o2, verdict, n_static, om, om2, mverdict = r[:13]
        stream = pid.split(":")[0]
        bs = by_stream.setdefault(stream, {"programs": 0, "in_fragment": 0})
        bs["programs"] += 1
        n_wt += wt == "wt"
        has_tc = int(n_other) + int(nc) > 0
        if frag == "FRAG-IN":
            n_in += 1
            bs["in_fragment"] += 1
            n_in_tc += has_tc
            if o.startswith("stuck:"):
                in_stuck.append({"id": pid, "status": o[:120]})
            if len(samples_in) < 3:
                samples_in.append(pid)
        else:
            k = reason.split(":")[0] + (":" + reason.split(":")[1] if reason.startswith(("traitcall:", "cget:", "call:", "constr:")) else "")
            if reason.startswith("traitcall:receiver-") and reason.count(":") >= 2:
                k = ":".join(reason.split(":")[:3]) + "(impl for an instance of a generic type, or a row whose function has another signature)"
            if k.startswith("call:builtin"):
                b = reason.split(":")[2] if reason.count(":") >= 2 else "?"
                k = "call:builtin:" + (b if b in ("ref", "ref_get", "ref_set", "array_get", "array_set", "vec_new", "vec_push", "vec_get", "vec_len", "string_get") else "extern")
            why[k] = why.get(k, 0) + 1
            if k in STRONGER:
                n_stronger += 1
            if len(samples_out) < 4:
                samples_out.append({"id": pid, "reason": reason[:120]})
        core_sites += int(nc); core_sites_ok += int(nc_ok); core_other += int(n_other)
        if verdict == "AGREE":
            core_agree += 1
        elif verdict == "DISAGREE" and definite(o):
            ctx.report({"oracle": "static-dispatch-vs-runtime-key", "stage": "core"},
                       "a trait call on a receiver annotated with a concrete type dispatches, under Sem, on a runtime key that is not the key of the annotation",
                       {"id": pid, "plain_run": o, "key_checked_run": o2, "src": progs[pid].get("src")})
        else:
            core_skip += 1
        if int(n_static) > 0:
            mono_progs += 1
            mono_sites += int(n_static)
            if not definite(om):
                mono_indef += 1
            elif mverdict == "AGREE":
                mono_agree += 1
            else:
                ctx.report({"oracle": "static-dispatch-vs-runtime-key", "stage": "mono"},
                           "mono resolved a trait call to an implementation whose declared receiver type is not the type of the value the receiver has at run time",
                           {"id": pid, "mono_run": om, "run_with_dynamic_dispatch_restored": om2, "src": progs[pid].get("src")})
    cov.update({
        "core_programs_consistent(Wt.wtProg)": n_wt,
        "in_fragment_of_sem_preserves_types_partial(sigClosedB && ValTy.okProg)": n_in,
        "fragment_flag": "okProg S P true = hypothesis of sem_preserves_types_store_partial (reference builtins admitted; Props/C03.lean, namespace ValTyR)",
        "of_those_with_a_trait_call_in_Core": n_in_tc,
        "outside_by_first_reason": dict(sorted(why.items(), key=lambda kv: -kv[1])),
        "programs_outside_first_because_of_a_condition_stronger_than_Wt(enum field read without the variant fact, struct/enum kind, dispatch row signature, exact callee instance)": n_stronger,
        "by_stream": by_stream,
        "in_fragment_but_stuck_under_Sem(expected 0; progress is not proved)": in_stuck[:5],
        "core_trait_calls_on_a_concretely_annotated_receiver": core_sites,
        "of_those_with_dispatch_row_of_the_annotated_signature(dispatchOk)": core_sites_ok,
        "core_trait_calls_on_a_receiver_of_parametric_type(T: Tr bound; instantiated by mono)": core_other,
        "core_programs_key_checked_run_equals_plain_run": core_agree,
        "mono_programs_with_statically_resolved_trait_calls": mono_progs,
        "mono_statically_resolved_call_sites": mono_sites,
        "mono_programs_run_with_dynamic_dispatch_restored_equals_plain_run": mono_agree,
        "mono_programs_skipped(plain run not definite within the fuel)": mono_indef,
        "samples_inside": samples_in, "samples_outside": samples_out,
    })
    return cov

def collect_and_evaluate(ctx):
    """for the checks that do not collect the C01 streams themselves (C03, C07)"""
    from props import c01
    progs, _ = c01.collect(ctx)
    return evaluate(ctx, progs)

ASSUMPTIONS = [
    "type soundness: `sem_preserves_types_partial` is about `Sem` and the judgement `Wt` on the fragment `ValTy.okE` (closures, function values, arrays, vectors and references (store-typed version, ValTyR) included; no trait objects, `go`; callees are fragment expressions of function type or the printing / conversion builtins; enum field reads under an arm that established the variant; trait calls on any receiver when the dispatch table passes `implsOk`, else on concretely annotated receivers with a dispatch row of the annotated signature); outside it soundness is only validated by the runs",
    "static dispatch: the oracle restores dynamic dispatch in the REAL Mono dump (key of the runtime receiver must be the key of the declared receiver type of the function mono chose) and compares `Sem` outcomes at the same fuel; programs whose plain run is not definite within the fuel are skipped",
]
