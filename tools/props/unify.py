"""The typer's unifier (`typer/unify.rs`: occurs / norm / unify and the ena table) — a stream of the C03 check.

`gv unify` (harness/src/unify.rs) generates scripts (`fresh n`, `unify l r`, `norm t`), runs each on a fresh REAL `Typer`
through the cfg-guarded hook (`#[cfg(goml_verif)] Typer::verif_*`), and prints per step the outcome, the diagnostic class, and
the real normal forms of both sides and of every variable.  `gomlmodel unify` (Model/Unify.lean) answers the same scripts.
Tie: the two answers are compared step by step (a difference is a broken tie).
Oracle on the implementation's own answers (no model): after a `unify l r` that returned true the real `norm l` and `norm r`
agree (equal up to array lengths one of which is the wildcard); a failing call pushes exactly one diagnostic and a succeeding
one none; the real store never becomes cyclic (the harness walks the real store through `verif_probe` before it lets the
real `norm` run); no panic.
The theorems (Props/Unify.lean) are about the same model.
"""
import os, subprocess
import vlib

WILD = "18446744073709551615"


def parse(s):
    """S-expression → nested lists / atoms (atoms here are never quoted: names are [A-Za-z0-9_-])"""
    out, stack, tok = None, [], []
    def flush():
        if tok:
            stack[-1].append("".join(tok)); tok.clear()
    for c in s:
        if c == "(":
            flush() if stack else None
            stack.append([])
        elif c == ")":
            flush()
            x = stack.pop()
            if stack:
                stack[-1].append(x)
            else:
                out = x
        elif c in " \t\n":
            if stack:
                flush()
        else:
            tok.append(c)
    return out


def agree(a, b):
    """equal up to array lengths one of which is the wildcard"""
    if isinstance(a, str) or isinstance(b, str):
        return a == b
    if len(a) != len(b):
        return False
    if a and a[0] == "array" and b and b[0] == "array" and len(a) == 3:
        return (a[1] == b[1] or a[1] == WILD or b[1] == WILD) and agree(a[2], b[2])
    return all(agree(x, y) for x, y in zip(a, b))


def has_wild(a):
    if isinstance(a, str):
        return False
    if a and a[0] == "array" and len(a) == 3 and a[1] == WILD:
        return True
    return any(has_wild(x) for x in a)


def show(x):
    return x if isinstance(x, str) else "(" + " ".join(show(y) for y in x) + ")"


def run(ctx):
    """returns the coverage fragment of the stream; violations / broken ties go to ctx"""
    path = os.path.join(ctx.run_dir, "unify.cases.tsv")
    prog = os.path.join(ctx.run_dir, "unify.progress")
    skip, crashed = [], []
    while True:
        for f in (path, prog):
            if os.path.exists(f):
                os.remove(f)
        nb = len(ctx.broken_ties)
        ok, out = ctx.gv("unify", ["--skip", ",".join(map(str, skip))] if skip else [])
        if ok or not os.path.exists(prog) or len(skip) >= 6:
            break
        # the process died inside a script (a stack overflow of the real unify / norm cannot be caught in-process):
        # that script is a failing input; run the rest without it
        idx, cid, script = (open(prog).read().rstrip("\n").split("\t") + ["", ""])[:3]
        del ctx.broken_ties[nb:]
        crashed.append(cid)
        ctx.report({"oracle": "unify-no-crash", "kind": "abort"},
                   "the REAL Typer::unify / norm killed the process on this script (stack overflow: unbounded recursion)",
                   {"id": cid, "script": script, "harness_output": out[-300:]})
        skip.append(int(idx))
    rows = vlib.read_tsv(path) if ok and os.path.exists(path) else []
    cases = [r for r in rows if len(r) >= 4 and r[1] == "UNI"]
    gen_cov = {}
    for r in rows:
        if r[0] == "#COV" and len(r) > 1:
            for kv in r[1].split(";"):
                k, _, v = kv.partition("=")
                gen_cov[k] = int(v) if v.isdigit() else v
    if not cases:
        ctx.broken_ties.append(("gv unify", "no cases: " + out[-500:]))
        return {"scripts": 0}
    p = subprocess.run([vlib.MODEL, "unify"], input="\n".join(f"{r[0]}\t{r[2]}" for r in cases) + "\n",
                       stdout=subprocess.PIPE, stderr=subprocess.PIPE, text=True, timeout=3000)
    if p.returncode != 0:
        ctx.broken_ties.append(("model driver unify", p.stderr[-1000:]))
    model = dict(l.split("\t", 1) for l in p.stdout.split("\n") if "\t" in l)

    n_steps = n_unify = n_ok = n_diff = n_wild_ok = n_post_differ = 0
    classes, distinct, samples = {}, set(), []
    for r in cases:
        cid, script, impl = r[0], r[2], r[3]
        si, ri = parse(script), parse(impl)
        steps, res = si[1:], ri[1:]
        # ---- oracle on the real answers
        for k, (st, rs) in enumerate(zip(steps, res)):
            n_steps += 1
            payload = {"id": cid, "script": script, "step": k, "step_text": show(st), "real_answer": show(rs)}
            if rs[0] == "cyclic":
                ctx.report({"oracle": "unify-store-acyclic", "kind": "cyclic-store"},
                           "after this step the REAL union-find store of the typer is cyclic (norm would not return)", payload)
                break
            if rs[0] == "panic":
                ctx.report({"oracle": "unify-no-panic", "kind": "panic"}, "the real unify / norm panicked", payload)
                break
            if rs[0] != "unify":
                continue
            n_unify += 1
            okflag, cls, ndiag, post = rs[1], rs[2], int(rs[3]), rs[4]
            classes[cls] = classes.get(cls, 0) + 1
            distinct.add((cls, show(st[1])[:40], show(st[2])[:40]))
            if (okflag == "ok") != (ndiag == 0) or ndiag > 1:
                ctx.report({"oracle": "unify-one-diagnostic", "kind": f"{okflag}-with-{ndiag}-diagnostics"},
                           "unify returned true with a diagnostic, or false with none / several", payload)
            if okflag == "ok":
                n_ok += 1
                if not agree(post[1], post[2]):
                    ctx.report({"oracle": "unify-sound", "kind": "normal-forms-differ-after-true"},
                               "unify l r returned true but the real norm l and norm r differ (beyond wildcard array lengths)", payload)
                elif post[1] != post[2]:
                    n_post_differ += 1
                if has_wild(post[1]) or has_wild(post[2]):
                    n_wild_ok += 1
        if len(res) < len(steps) and not (res and res[-1][0] in ("cyclic", "panic")):
            ctx.broken_ties.append(("gv unify", f"{cid}: result shorter than script without cyclic/panic"))
        # ---- tie: model = implementation, step by step
        m = model.get(cid)
        if m is None:
            ctx.broken_ties.append(("model driver unify", f"{cid}: no answer"))
            continue
        if m != impl:
            n_diff += 1
            mres = (parse(m) or ["result"])[1:] if m.startswith("(") else []
            k = next((i for i, (a, b) in enumerate(zip(res, mres)) if a != b), min(len(res), len(mres)))
            if n_diff <= 5:
                ctx.broken_ties.append(("unify model≠impl", f"{cid} step {k}: {show(steps[k]) if k < len(steps) else '?'}\n  impl : "
                                        f"{show(res[k]) if k < len(res) else '-'}\n  model: {show(mres[k]) if k < len(mres) else m[:200]}\n  script: {script}"))
        if len(samples) < 2 and cid.split(":")[1] in ("knot", "mismatch") and len(script) < 700:
            samples.append({"id": cid, "script": script, "real_answer": impl[:600]})
    if n_diff > 5:
        ctx.broken_ties.append(("unify model≠impl", f"{n_diff} scripts differ in all"))
    return {
        "scripts": len(cases), "scripts_that_killed_the_process": crashed, "steps": n_steps, "unify_steps": n_unify, "unify_returned_true": n_ok,
        "distinct_unify_steps": len(distinct), "diagnostic_classes_observed(real)": classes,
        "true_with_a_wildcard_length_in_a_normal_form": n_wild_ok,
        "true_but_normal_forms_not_identical(wildcard only)": n_post_differ,
        "model_diffs": n_diff, "samples": samples,
        "generator": {k: gen_cov[k] for k in sorted(gen_cov) if not k.startswith(("k_", "mismatch_aim_", "mm_", "knot_ctx"))},
        "generator_type_constructors": {k[2:]: gen_cov[k] for k in sorted(gen_cov) if k.startswith("k_")},
        "generator_mismatch_kinds": {k[3:]: gen_cov[k] for k in sorted(gen_cov) if k.startswith("mm_")},
    }


def subst_vars(t, nfs):
    """normal form of `t` given the normal forms of all variables"""
    if isinstance(t, str):
        return t
    if len(t) == 2 and t[0] == "tvar" and isinstance(t[1], str):
        i = int(t[1])
        return nfs[i] if i < len(nfs) else t
    return [subst_vars(x, nfs) for x in t]


def run_solve(ctx):
    """the constraint loop: `gv solve` runs generated constraint queues through the REAL `Typer::solve` against real
    environments (a compiled prelude, plus synthetic impl rows and a dependency), `gomlmodel solve` (Model/Solve.lean) answers
    the same queues; compared: the diagnostic classes in order, the constraints left in the queue, the number of keys, the normal
    forms of all variables.  Oracle on the real answers: no cyclic store, no panic / crash; without diagnostics every queued
    equality holds (computed here from the real normal forms of the variables) and nothing is left in the queue; something is
    left in the queue iff the run ends with the two `unsolved` / `inference-failed` diagnostics."""
    path = os.path.join(ctx.run_dir, "solve.cases.tsv")
    prog = os.path.join(ctx.run_dir, "solve.progress")
    skip, crashed = [], []
    while True:
        for f in (path, prog):
            if os.path.exists(f):
                os.remove(f)
        nb = len(ctx.broken_ties)
        ok, out = ctx.gv("solve", ["--skip", ",".join(map(str, skip))] if skip else [])
        if ok or not os.path.exists(prog) or len(skip) >= 6:
            break
        idx, cid, script = (open(prog).read().rstrip("\n").split("\t") + ["", ""])[:3]
        del ctx.broken_ties[nb:]
        crashed.append(cid)
        ctx.report({"oracle": "solve-no-crash", "kind": "abort"},
                   "the REAL Typer::solve killed the process on this constraint queue (stack overflow: unbounded recursion)",
                   {"id": cid, "script": script, "harness_output": out[-300:]})
        skip.append(int(idx))
    rows = vlib.read_tsv(path) if ok and os.path.exists(path) else []
    envs = [r for r in rows if r[0] == "#ENV"]
    cases = [r for r in rows if len(r) >= 4 and r[1] == "SOLVE"]
    gen_cov = {}
    for r in rows:
        if r[0] == "#COV" and len(r) > 1:
            for kv in r[1].split(";"):
                k, _, v = kv.partition("=")
                gen_cov[k] = int(v) if v.isdigit() else v
    if not cases:
        ctx.broken_ties.append(("gv solve", "no cases: " + out[-500:]))
        return {"queues": 0}
    lines = ["\t".join(r[:3]) for r in envs] + [f"{r[0]}\t{r[2]}" for r in cases]
    p = subprocess.run([vlib.MODEL, "solve"], input="\n".join(lines) + "\n", stdout=subprocess.PIPE, stderr=subprocess.PIPE,
                       text=True, timeout=3000)
    if p.returncode != 0:
        ctx.broken_ties.append(("model driver solve", p.stderr[-1000:]))
    model = dict(l.split("\t", 1) for l in p.stdout.split("\n") if "\t" in l)
    if "#ENV" in model:
        ctx.broken_ties.append(("model driver solve", "environment not decoded: " + model["#ENV"][:200]))
    n_diff = n_clean = n_rest = n_fresh = n_constraints = 0
    classes, kinds, distinct, samples = {}, {}, set(), []
    for r in cases:
        cid, script, impl = r[0], r[2], r[3]
        si, ri = parse(script), parse(impl)
        nfresh = int(si[2][1])
        cs = si[3][1:]
        n_constraints += len(cs)
        for c in cs:
            kinds[c[0]] = kinds.get(c[0], 0) + 1
        res = {x[0]: x[1:] for x in ri[1:] if isinstance(x, list) and x}
        payload = {"id": cid, "script": script, "real_answer": impl[:1500]}
        if "panic" in res:
            ctx.report({"oracle": "solve-no-panic", "kind": "panic"}, "the real Typer::solve panicked", payload)
        elif "cyclic" in res:
            ctx.report({"oracle": "solve-store-acyclic", "kind": "cyclic-store"},
                       "after Typer::solve the REAL union-find store is cyclic (norm would not return)", payload)
        else:
            diags, rest, nfs = res.get("diags", []), res.get("rest", []), res.get("vars", [])
            for d in diags:
                classes[d] = classes.get(d, 0) + 1
            distinct.add((tuple(diags), tuple(c[0] for c in cs), len(rest)))
            if int(res.get("nvars", ["0"])[0]) > nfresh:
                n_fresh += 1
            stuck = diags[-2:] == ["unsolved", "inference-failed"]
            if bool(rest) != stuck:
                ctx.report({"oracle": "solve-queue", "kind": "left-over-without-the-final-diagnostics" if rest else "final-diagnostics-with-empty-queue"},
                           "constraints are left in the queue iff solve ends with `Could not solve all constraints` + `Type inference failed`", payload)
            if rest:
                n_rest += 1
            if not diags:
                n_clean += 1
                for c in cs:
                    if c[0] == "eq" and not agree(subst_vars(c[1], nfs), subst_vars(c[2], nfs)):
                        ctx.report({"oracle": "solve-sound", "kind": "equality-constraint-does-not-hold-after-a-clean-solve"},
                                   "solve pushed no diagnostic but a queued equality does not hold under the final substitution",
                                   dict(payload, constraint=show(c)))
        m = model.get(cid)
        if m != impl:
            n_diff += 1
            if n_diff <= 5:
                ctx.broken_ties.append(("solve model≠impl", f"{cid}\n  script: {script}\n  impl : {impl[:900]}\n  model: {(m or 'no answer')[:900]}"))
        if len(samples) < 2 and cid.split(":")[1] == "chain" and len(script) < 600:
            samples.append({"id": cid, "script": script, "real_answer": impl[:500]})
    if n_diff > 5:
        ctx.broken_ties.append(("solve model≠impl", f"{n_diff} queues differ in all"))
    return {
        "queues": len(cases), "queues_that_killed_the_process": crashed, "constraints": n_constraints, "constraint_kinds": kinds,
        "distinct(diagnostics, kinds, left-over)": len(distinct), "diagnostic_classes_observed(real, in total)": classes,
        "queues_without_diagnostics": n_clean, "queues_with_constraints_left": n_rest, "queues_where_inst_ty_created_keys": n_fresh,
        "environments": [r[1] for r in envs], "model_diffs": n_diff, "samples": samples,
        "generator": {k: gen_cov[k] for k in sorted(gen_cov)},
    }
