#!/usr/bin/env bash
# usage: tools/run_quick_all.sh [-j N] [Cxx ...]   — run the quick tier of the given (default: all 20) checks in /verif
# against /repo, N at a time (default 4); prints one line per check: id, exit status, wall seconds, VIOLATION lines.
# Evidence files are rewritten by the runs (that is the point: commit them afterwards).
cd "$(dirname "$0")/.." || exit 1
J=4
if [ "$1" = "-j" ]; then J=$2; shift 2; fi
ids=("$@"); [ ${#ids[@]} -eq 0 ] && ids=(C01 C02 C03 C04 C05 C06 C07 C08 C09 C10 C11 C12 C13 C14 C15 C16 C17 C18 C19 C20)
mkdir -p .cache/runall
./check setup > .cache/runall/setup.log 2>&1 || { echo "setup FAILED"; tail -20 .cache/runall/setup.log; exit 1; }
run1() { id=$1; s=$(date +%s); ./check $id --tier quick > .cache/runall/$id.log 2>&1; rc=$?; e=$(date +%s)
  echo "$id rc=$rc $((e-s))s $(grep -c '^KNOWN-FINDING' .cache/runall/$id.log) known  $(grep '^VIOLATION' .cache/runall/$id.log | head -3 | tr '\n' ' ')"; }
export -f run1
printf '%s\n' "${ids[@]}" | xargs -P $J -I{} bash -c 'run1 {}'
