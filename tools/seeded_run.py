#!/usr/bin/env python3
"""Apply every seeded change to /repo in turn, run the check(s) that should catch it, undo.
usage: tools/seeded_run.py [name-prefix]"""
import json, os, subprocess, sys, glob
VERIF = os.path.dirname(os.path.dirname(os.path.abspath(__file__)))
CHECKS = {  # seeded change -> checks expected to fail
    "C15-diamond-dedup": ["C15"], "C12-eof-fuel": ["C12"], "C11-multiline-trim": ["C11"],
    "C05-def-before-local": ["C05"], "C19-goident-reescape": ["C19"], "C13-xor-fold": ["C13"],
    "C10-f32-double-rounding": ["C10"], "C16-transitive-envs": ["C16"], "C02-dyn-struct-name": ["C02"],
    "C17-dyn-effect-call-dropped": ["C17", "C01"],  # since 08eb8c1 the leftover dyn wrapper is `_ = e` (valid Go): C02 no longer sees it, C01 does (go stage, stdout-differs)
    "C01-struct-pattern-order": ["C01"],
}
def sh(cmd, **kw):
    return subprocess.run(cmd, shell=True, capture_output=True, text=True, **kw)
pref = sys.argv[1] if len(sys.argv) > 1 else ""
rows = []
# evidence/ must only ever hold records of runs against the unchanged /repo: keep a copy, put it back at the end
import shutil, tempfile, atexit
_keep = tempfile.mkdtemp(prefix="evidence-keep-")
shutil.copytree(os.path.join(VERIF, "evidence"), os.path.join(_keep, "evidence"))
def _restore():
    shutil.rmtree(os.path.join(VERIF, "evidence"), ignore_errors=True)
    shutil.copytree(os.path.join(_keep, "evidence"), os.path.join(VERIF, "evidence"))
    shutil.rmtree(_keep, ignore_errors=True)
atexit.register(_restore)
for d in sorted(glob.glob(os.path.join(VERIF, "seeded", "*"))):
    name = os.path.basename(d)
    if not name.startswith(pref):
        continue
    meta = json.load(open(os.path.join(d, "meta.json")))
    if meta.get("obsolete"):
        rows.append((name, "-", "OBSOLETE", "no longer breaks the property on the current tree (see meta.json)")); continue
    checks = meta.get("checks") or CHECKS.get(name, [meta["property"]])
    if sh("git -C /repo status --porcelain").stdout.strip():
        print("refusing: /repo has uncommitted changes"); sys.exit(2)
    a = sh(f"git -C /repo apply --3way {d}/patch.diff")
    if a.returncode != 0:
        rows.append((name, "PATCH-DOES-NOT-APPLY", a.stderr.strip()[:200])); sh("git -C /repo checkout -- . ; git -C /repo reset -q"); continue
    try:
        for c in checks:
            r = sh(f"VERIF_NO_EVIDENCE=1 ./check {c}", cwd=VERIF)
            lines = [l for l in r.stdout.splitlines() if l.startswith("VIOLATION")]
            rows.append((name, c, "CAUGHT" if r.returncode != 0 and lines else "MISSED", lines[0][:160] if lines else ""))
    finally:
        sh("git -C /repo reset -q; git -C /repo checkout -- .")
for r in rows:
    print("\t".join(r))
