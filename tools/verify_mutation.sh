#!/usr/bin/env bash
# usage: verify.sh <ID> <crate> <testfile-basename-without-.rs> <CHECK...>
id=$1; crate=$2; t=$3; shift 3
cd /tmp/mut/$id/repo || exit 1
dir=crates/$crate/tests; mkdir -p $dir
cp /tmp/mut/$id/out/$t.rs $dir/
echo "with:    $(cargo test --offline -p $crate --test $t 2>&1 | grep 'test result')"
git apply -R /tmp/mut/$id/out/patch.diff
echo "without: $(cargo test --offline -p $crate --test $t 2>&1 | grep 'test result')"
git apply /tmp/mut/$id/out/patch.diff
rm -f $dir/$t.rs; rmdir $dir 2>/dev/null
cd /verif
git -C /repo apply --3way /tmp/mut/$id/out/patch.diff >/dev/null 2>&1 || { echo "patch does not apply to /repo"; exit 1; }
for c in "$@"; do VERIF_NO_EVIDENCE=1 ./check $c | grep -v KNOWN | tail -3; done
git -C /repo reset -q; git -C /repo checkout -- .
