"""Shared machinery for ./check: builds, axiom audit, harness/model runs, findings, evidence."""
import fcntl, hashlib, json, os, re, subprocess, sys, time

VERIF = os.path.dirname(os.path.dirname(os.path.abspath(__file__)))
LEAN = os.path.join(VERIF, "lean")
HARNESS = os.path.join(VERIF, "harness")
CACHE = os.path.join(VERIF, ".cache")
GV = os.path.join(CACHE, "target", "release", "gv")
HOOK_RUSTFLAGS = "--cfg goml_verif"
MODEL = os.path.join(LEAN, ".lake", "build", "bin", "gomlmodel")
ALLOWED_AXIOMS = {"propext", "Classical.choice", "Quot.sound"}
FORBIDDEN = re.compile(r"\bsorry\b|\badmit\b|^axiom |native_decide|bv_decide|implemented_by|\bunsafe |maxHeartbeats 0", re.M)

ENV = dict(os.environ, CARGO_NET_OFFLINE="true", GOPROXY="off", PIP_NO_INDEX="1")


class Lock:
    def __init__(self, name):
        os.makedirs(CACHE, exist_ok=True)
        self.path = os.path.join(CACHE, name + ".lock")
    def __enter__(self):
        self.f = open(self.path, "w")
        fcntl.flock(self.f, fcntl.LOCK_EX)
    def __exit__(self, *a):
        fcntl.flock(self.f, fcntl.LOCK_UN)
        self.f.close()


def sh(cmd, cwd=None, timeout=None, input=None, env=None):
    p = subprocess.run(cmd, cwd=cwd, env=env or ENV, stdout=subprocess.PIPE, stderr=subprocess.STDOUT,
                       text=True, timeout=timeout, input=input)
    return p.returncode, p.stdout


def strip_comments(text):
    text = re.sub(r"/-.*?-/", "", text, flags=re.S)
    return re.sub(r"--.*", "", text)


def theorems_in(path):
    """fully qualified names of the theorems declared in a Props file"""
    ns, out = [], []
    for line in strip_comments(open(path).read()).splitlines():
        m = re.match(r"\s*namespace\s+(\S+)", line)
        if m:
            ns.append(m.group(1)); continue
        m = re.match(r"\s*end\s+(\S+)", line)
        if m and ns and ns[-1] == m.group(1):
            ns.pop(); continue
        m = re.match(r"\s*(?:@\[[^\]]*\]\s*)?(?:private\s+|protected\s+)?theorem\s+(\S+)", line)
        if m:
            out.append(".".join(ns + [m.group(1)]))
    return out


def lean_sources(mods):
    """transitive local imports of the given modules (paths)"""
    seen, todo = [], list(mods)
    while todo:
        m = todo.pop()
        p = os.path.join(LEAN, m.replace(".", "/") + ".lean")
        if p in seen or not os.path.exists(p):
            continue
        seen.append(p)
        for imp in re.findall(r"^import\s+(GomlVerif\.\S+)", open(p).read(), flags=re.M):
            todo.append(imp)
    return seen


class Ctx:
    def __init__(self, pid, tier, seed, replay=None):
        self.pid, self.tier, self.seed, self.replay = pid, tier, seed, replay
        self.t0 = time.time()
        self.run_dir = os.path.join(CACHE, "run", pid)
        os.makedirs(self.run_dir, exist_ok=True)
        os.makedirs(os.path.join(VERIF, "replays"), exist_ok=True)
        import glob
        self.replay_signature = None
        if replay and os.path.exists(replay):
            try:
                self.replay_signature = json.load(open(replay)).get("signature")
            except Exception:
                pass
        for old in glob.glob(os.path.join(VERIF, "replays", f"{pid}-*.json")):
            os.remove(old)
        self.violations = []          # (signature dict, what, replay payload)
        self.broken_ties = []         # (name, detail)
        self.known_hits = []
        self.notes = []
        self.proof = {"obligations": 0, "discharged": 0, "theorems": {}, "axioms": []}
        self.assumptions = []
        self.cov = {}

    # ---------------------------------------------------------------- builds
    def extract(self):
        with Lock("lean"):
            rc, out = sh([sys.executable, os.path.join(VERIF, "tools", "extract.py")])
        if rc != 0:
            self.broken_ties.append(("translator", out.strip()[-2000:]))
        return rc == 0

    def build_lean(self, prop_modules):
        """build the property modules and the model executable; audit axioms and forbidden tokens"""
        with Lock("lean"):
            rc, out = sh(["lake", "build", "gomlmodel"] + prop_modules, cwd=LEAN, timeout=3000)
        self.lean_log = out
        if rc != 0:
            failed = re.findall(r"error: (\S+\.lean:\d+:\d+: .*)", out)
            self.broken_ties.append(("lake build", "\n".join(failed[:20]) or out[-3000:]))
            # which theorems are gone: every theorem of a module that failed to build
            for m in prop_modules:
                p = os.path.join(LEAN, m.replace(".", "/") + ".lean")
                ths = theorems_in(p)
                self.proof["obligations"] += len(ths)
                for t in ths:
                    self.proof["theorems"][t] = "not-checked (build failed)"
            return False
        ok = True
        names = []
        for m in prop_modules:
            p = os.path.join(LEAN, m.replace(".", "/") + ".lean")
            names += [(m, t) for t in theorems_in(p)]
        for src in lean_sources(prop_modules):
            hit = FORBIDDEN.search(strip_comments(open(src).read()))
            if hit:
                ok = False
                self.broken_ties.append(("forbidden token", f"{src}: {hit.group(0)}"))
        if names:
            probe = os.path.join(self.run_dir, "Axioms.lean")
            with open(probe, "w") as f:
                for m in prop_modules:
                    f.write(f"import {m}\n")
                for _, t in names:
                    f.write(f"#print axioms {t}\n")
            rc, out = sh(["lake", "env", "lean", probe], cwd=LEAN, timeout=3000)
            blocks = re.split(r"(?=^'[^']+' (?:depends on axioms|does not depend on any axioms))", out, flags=re.M)
            seen = {}
            for b in blocks:
                m = re.match(r"'([^']+)' depends on axioms: \[(.*?)\]", b, flags=re.S)
                if m:
                    seen[m.group(1)] = [a.strip() for a in m.group(2).replace("\n", " ").split(",") if a.strip()]
                    continue
                m = re.match(r"'([^']+)' does not depend on any axioms", b)
                if m:
                    seen[m.group(1)] = []
            self.proof["obligations"] += len(names)
            allax = set()
            for _, t in names:
                if t not in seen:
                    ok = False
                    self.proof["theorems"][t] = "missing"
                    self.broken_ties.append(("theorem", f"{t}: not found by #print axioms"))
                    continue
                bad = [a for a in seen[t] if a not in ALLOWED_AXIOMS]
                allax.update(seen[t])
                if bad:
                    ok = False
                    self.proof["theorems"][t] = "axioms: " + ",".join(seen[t])
                    self.broken_ties.append(("theorem", f"{t}: disallowed axioms {bad}"))
                else:
                    self.proof["theorems"][t] = "ok [" + ",".join(seen[t]) + "]"
                    self.proof["discharged"] += 1
            self.proof["axioms"] = sorted(allax)
        if self.tier == "thorough":
            for m in prop_modules:
                rc, out = sh(["lake", "env", "leanchecker", m], cwd=LEAN, timeout=3000)
                if rc != 0:
                    ok = False
                    self.broken_ties.append(("leanchecker", f"{m}: {out[-500:]}"))
                else:
                    self.notes.append(f"leanchecker {m}: ok")
        return ok

    def build_harness(self):
        with Lock("cargo"):
            lock_src = "/repo/Cargo.lock"
            # the harness drives cfg-guarded verification hooks of goml (`#[cfg(goml_verif)]`, see MANIFEST.hooks)
            rc, out = sh(["cargo", "build", "--release", "--offline"], cwd=HARNESS, timeout=3000,
                         env=dict(ENV, RUSTFLAGS=HOOK_RUSTFLAGS))
        if rc != 0:
            self.broken_ties.append(("harness build", out[-3000:]))
            return False
        return True

    def gv(self, sub, extra=(), timeout=3000, scratch=None):
        cmd = [GV, sub, "--seed", str(self.seed), "--tier", self.tier, "--out", self.run_dir] + list(extra)
        env = dict(ENV, GV_SCRATCH=scratch or os.path.join(CACHE, "scratch"), GV_VERIF=VERIF,
                   GV_REPO=os.environ.get("GV_REPO", "/repo"))
        p = subprocess.run(cmd, env=env, stdout=subprocess.PIPE, stderr=subprocess.STDOUT, text=True, timeout=timeout)
        if p.returncode < 0:
            # killed by a signal (the OOM killer on a loaded machine): one retry, the kill is recorded
            self.assumptions.append(f"harness gv {sub} was killed by signal {-p.returncode} once and re-run")
            p = subprocess.run(cmd, env=env, stdout=subprocess.PIPE, stderr=subprocess.STDOUT, text=True, timeout=timeout)
        if p.returncode != 0:
            self.broken_ties.append((f"harness gv {sub}", p.stdout[-2000:]))
        return p.returncode == 0, p.stdout

    def model(self, sub, lines, timeout=3000):
        """run the Lean model driver on `lines`; returns {id: [fields…]}"""
        p = subprocess.run([MODEL, sub], input="\n".join(lines) + "\n", stdout=subprocess.PIPE,
                           stderr=subprocess.PIPE, text=True, timeout=timeout)
        res = {}
        for l in p.stdout.splitlines():
            f = l.split("\t")
            res[f[0]] = f[1:]
        if p.returncode != 0:
            self.broken_ties.append((f"model driver {sub}", p.stderr[-2000:]))
        return res

    # ---------------------------------------------------------------- findings
    def load_findings(self):
        p = os.path.join(VERIF, "known_findings.json")
        self.findings = json.load(open(p)) if os.path.exists(p) else []
        return self.findings

    def report(self, signature, what, payload):
        """an implementation-level failure of the property on a concrete input"""
        for f in self.findings:
            if f.get("status") == "known" and f.get("property") == self.pid and f.get("signature") == signature:
                if not any(h["signature"] == signature for h in self.known_hits):
                    self.known_hits.append({"signature": signature, "what": f.get("what", what), "count": 0})
                for h in self.known_hits:
                    if h["signature"] == signature:
                        h["count"] += 1
                return
        self.violations.append((signature, what, payload))

    # ---------------------------------------------------------------- finish
    def finish(self, level, coverage, trusted_base, checker_cmd):
        if self.replay_signature is not None:
            # replay: re-run the check and keep only the violation recorded in the replay file
            self.violations = [v for v in self.violations if v[0] == self.replay_signature]
        lines = []
        for h in self.known_hits:
            lines.append(f"KNOWN-FINDING: property={self.pid} {h['what']} (hit {h['count']}x)")
        rc = 0
        # group violations by signature; one replay file per signature
        by_sig = {}
        for sig, what, payload in self.violations:
            by_sig.setdefault(json.dumps(sig, sort_keys=True), []).append((what, payload))
        for k, items in by_sig.items():
            h = hashlib.sha1(k.encode()).hexdigest()[:10]
            path = os.path.join(VERIF, "replays", f"{self.pid}-{h}.json")
            json.dump({"property": self.pid, "seed": self.seed, "tier": self.tier, "signature": json.loads(k),
                       "what": items[0][0], "count": len(items), "cases": [p for _, p in items[:5]]},
                      open(path, "w"), indent=1)
            lines.append(f"VIOLATION property={self.pid} replay={path}")
            rc = 1
        if self.broken_ties:
            path = os.path.join(VERIF, "replays", f"{self.pid}-broken-tie.json")
            json.dump({"property": self.pid, "seed": self.seed, "tier": self.tier,
                       "broken": [{"what": n, "detail": d} for n, d in self.broken_ties],
                       "failing_input_found": bool(by_sig)}, open(path, "w"), indent=1)
            if not by_sig:
                lines.append(f"VIOLATION property={self.pid} replay={path} no-failing-input-found")
            else:
                lines.append(f"NOTE property={self.pid} proof-or-correspondence-broken details={path}")
            rc = 1
        cov = dict(coverage)
        cov.update({
            "obligations": self.proof["obligations"], "discharged": self.proof["discharged"],
            "checker_cmd": checker_cmd, "trusted_base": trusted_base,
            "theorems": self.proof["theorems"], "axioms_used": self.proof["axioms"],
            "known_findings_hit": self.known_hits,
            "broken_ties": [{"what": n, "detail": d[:500]} for n, d in self.broken_ties],
            "notes": self.notes,
        })
        if cov["obligations"] == 0:
            cov.pop("obligations"); cov.pop("discharged")
        ev = {"property_id": self.pid, "tier": self.tier, "seed": self.seed, "level": level,
              "coverage": cov, "assumptions": self.assumptions,
              "wall_s": round(time.time() - self.t0, 2), "violations": len(by_sig) + (1 if self.broken_ties else 0)}
        # evidence/<id>.json is per PROPERTY; auxiliary targets (dce, gocomp, …) that several properties
        # share write under evidence/aux/
        import re as _re
        edir = os.path.join(VERIF, "evidence") if _re.fullmatch(r"C\d\d", self.pid) else os.path.join(VERIF, "evidence", "aux")
        os.makedirs(edir, exist_ok=True)
        # VERIF_NO_EVIDENCE=1: a run against a deliberately changed /repo (seeded changes) must not
        # overwrite the record of the last run on the unchanged tree
        if not os.environ.get("VERIF_NO_EVIDENCE"):
            json.dump(ev, open(os.path.join(edir, f"{self.pid}.json"), "w"), indent=1)
        for l in lines:
            print(l)
        print(f"{self.pid}: {'FAIL' if rc else 'ok'} tier={self.tier} seed={self.seed} "
              f"theorems={self.proof['discharged']}/{self.proof['obligations']} "
              f"evaluations={cov.get('evaluations', 0)} wall={ev['wall_s']}s")
        return rc


def srun(cmd, **kw):
    """subprocess.run for the model driver / harness children; a child killed by a signal (the OOM
    killer when the machine is loaded) is run once more — a second kill is reported as it is"""
    p = subprocess.run(cmd, **kw)
    if p.returncode < 0 or p.returncode in (137, 139):
        f = kw.get("stdin")
        if hasattr(f, "seek"):
            try:
                f.seek(0)
            except Exception:
                return p
        sys.stderr.write(f"[vlib] child {cmd[:3]} died with {p.returncode}; running it once more\n")
        p = subprocess.run(cmd, **kw)
    return p


def read_tsv(path):
    rows = []
    for l in open(path, encoding="utf-8", errors="replace").read().split("\n"):
        if l:
            rows.append(l.split("\t"))
    return rows


def unesc(s):
    out, i = [], 0
    while i < len(s):
        c = s[i]
        if c == "\\" and i + 1 < len(s):
            n = s[i + 1]
            out.append({"n": "\n", "t": "\t", "r": "\r", "\\": "\\"}.get(n, n)); i += 2
        else:
            out.append(c); i += 1
    return "".join(out)
